/-
  C08 for the executable model, end to end: a filter / projection query whose FROM resolves to an array of arrays
  returns the array of the inner results — for each inner array exactly `(rows.filter p).map proj`, what
  `Pipeline.select_filter_project` says the same query returns on that inner array alone.
-/
import Genql.Properties.C08
import Genql.Properties.Pipeline
set_option linter.unusedSectionVars false
set_option linter.unusedVariables false
set_option linter.unusedSimpArgs false
namespace Genql.C08
open Genql Genql.C01 Genql.Pipeline
variable {N : Type} [Num N] [LawfulNum N]

/-- one level of nesting over flat inner arrays, for any WHERE / rest-of-pipeline pair -/
theorem nested_flat_levels (wh : List (Val N) → Row N → R Bool)
    (post : List (Val N) → List (Val N) → R (List (Val N))) (src : List (Val N))
    (yss : List (List (Row N))) (f : Row N → Bool) (g : List (Row N) → List (Val N))
    (h1 : ∀ rows ∈ yss, ∀ r ∈ rows, wh (rows.map Val.obj) r = .ok (f r))
    (h2 : ∀ rows ∈ yss, post (rows.map Val.obj) ((rows.filter f).map Val.obj) = .ok (g rows)) :
    levelLoop wh post src (yss.map fun rows => Val.arr (rows.map Val.obj)) =
      .ok (yss.map fun rows => Val.arr (g rows)) := by
  induction yss with
  | nil => rfl
  | cons rows yss ih =>
    have ih' := ih (fun r hr => h1 r (by simp [hr])) (fun r hr => h2 r (by simp [hr]))
    simp only [List.map_cons, levelLoop, levelElem, bind, Except.bind, pure, Except.pure]
    rw [levelLoop_flat wh post (rows.map Val.obj) rows f (h1 rows (by simp))]
    simp only [h2 rows (by simp), ih']

/-- **multi-dimensional FROM (depth 2) in the executable model**: same nesting, each inner array filtered and
    projected on its own (the select list sees the inner array's kept rows as `matched`) -/
theorem nested_select_model (env : Env N) (data : Row N) (t : String) (yss : List (List (Row N))) (p : Expr N)
    (sel : List (SelItem N)) (proj : List (Row N) → Row N → Row N)
    (ht : Val.get data t = .arr (yss.map fun rows => Val.arr (rows.map Val.obj)))
    (hwt : ∀ rows ∈ yss, ∀ r ∈ rows, WT r p)
    (hna : isAllAggr sel = false)
    (hsel : ∀ rows ∈ yss, ∀ r ∈ rows.filter (sem · p),
      evalSel env (selCtx data (rows.map Val.obj) ((rows.filter (sem · p)).map Val.obj)) r sel [] = .ok (proj rows r)) :
    execQuery env data {} (.select [] false sel (.table [t] "" t) p [] (.bool true) [] none none)
      = .ok (.arr (yss.map fun rows => Val.arr ((rows.filter (sem · p)).map fun r => Val.obj (proj rows r)))) := by
  have hE : ("" : String).isEmpty = true := by decide
  simp only [execQuery, prepare, evalCtes, evalFrom, cteNames, List.append_nil, List.not_mem_nil,
    if_false, readPath_single, ht, asArray, processAlias, bind, Except.bind, pure, Except.pure,
    hE, if_true, execLevel, List.isEmpty_nil, Bool.not_true]
  simp only [Bool.false_eq_true, if_false]
  rw [nested_flat_levels _ _ _ yss (fun r => sem r p)
      (fun rows => (rows.filter (sem · p)).map fun r => Val.obj (proj rows r))]
  · -- the outer level: inner results pass through the select stage untouched
    simp only [Bool.not_false, if_true, hna, Bool.false_and, Bool.false_eq_true, if_false, selectRowsWith]
    rw [mapE_eq_map_of_ok (g := fun v => v)]
    · simp [sortRows, window_none]
    · intro x hx
      simp only [List.mem_map] at hx
      obtain ⟨rows, _, rfl⟩ := hx
      rfl
  · intro rows hrows r hr
    simp [evalPred_sound env ⟨data, false, false, _, _⟩ rfl r p (hwt rows hrows r hr), rawBool]
  · intro rows hrows
    simp only [Bool.not_false, if_true, hna, Bool.false_and, Bool.false_eq_true, if_false, selectRowsWith]
    rw [mapE_eq_map_of_ok (g := fun v => match v with | Val.obj fs => Val.obj (proj rows fs) | v => v)]
    · simp [sortRows, window_none, List.map_map, Function.comp_def]
    · intro x hx
      simp only [List.mem_map] at hx
      obtain ⟨r, hr, rfl⟩ := hx
      have := hsel rows hrows r hr
      simp only [selCtx, List.length_map] at this
      simp only [List.length_map, bind, Except.bind, pure, Except.pure, this]


end Genql.C08
