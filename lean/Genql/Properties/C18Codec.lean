/-
  C18 — ENCODE / DECODE / HASH: the byte↔text codecs round-trip.

  Model: Genql.Model.Codec (Go 1.23 `encoding/hex`, `encoding/base32` StdEncoding,
  `encoding/base64` URLEncoding, and the compositions performed by `EncodeFunc`, `DecodeFunc`,
  `HashFunc`).  Helper lemmas: Genql.Proofs.Codec.

  Trusted / not modelled (appear as hypotheses, never as axioms):
  * `encoding/gob`: `gobEnc`, `gobDec` with `gobDec (gobEnc v) = some v`.  NB gob encoding of
    `struct{Data any}` FAILS for `map[string]any` and `[]any` values (genql never calls
    `gob.Register`), so the realistic `gobEnc` is partial; `decode_encode_of_some` covers that.
  * the digests sha1 / sha256 / sha512 / md5: only their output length is assumed.
  * The model writes Go's shifts / masks / ors as `Nat` arithmetic; Genql.Proofs.CodecBits proves
    these formulas equal the literal `<<<`, `>>>`, `&&&`, `|||` expressions of the Go source.
-/
import Genql.Proofs.Codec
import Genql.Proofs.CodecBits

namespace Genql.C18
open Genql.Codec

/-! ## Round trips, for ALL byte lists -/

theorem hex_roundtrip (bs : List UInt8) : hexDec (hexEnc bs) = some bs := by
  induction bs with
  | nil => rfl
  | cons b bs ih =>
    have hb := b.toNat_lt
    have h1 : b.toNat / 16 < 16 := by omega
    have h2 : b.toNat % 16 < 16 := by omega
    simp only [hexEnc, hexDec, hexVal_hexDigit _ h1, hexVal_hexDigit _ h2, ih, hexByte,
      Option.map_some]

theorem base64url_roundtrip (bs : List UInt8) : b64uDec (b64uEnc bs) = some bs :=
  b64uLoop_enc bs

/-- Output alphabet of `b32Enc` (used by the round trip: nothing is stripped as a newline). -/
theorem base32_alphabet (bs : List UInt8) : ∀ c ∈ b32Enc bs, c ∈ b32Alpha ∨ c = '=' := by
  induction bs using b32Enc.induct with
  | case1 => intro c h; simp [b32Enc] at h
  | case2 a => rw [b32Enc]; exact b32_chunk_mem _ _ _ _ _ _ _
  | case3 a b => rw [b32Enc]; exact b32_chunk_mem _ _ _ _ _ _ _
  | case4 a b c => rw [b32Enc]; exact b32_chunk_mem _ _ _ _ _ _ _
  | case5 a b c d => rw [b32Enc]; exact b32_chunk_mem _ _ _ _ _ _ _
  | case6 a b c d e rest ih =>
    rw [b32Enc]
    intro ch h
    rcases List.mem_append.1 h with h | h
    · have := b32_chunk_mem a.toNat b.toNat c.toNat d.toNat e.toNat 8 0 ch
      rw [pad, List.replicate_zero, List.append_nil, List.take_of_length_le (by simp [b32Idx_length])]
        at this
      exact this h
    · exact ih ch h

theorem base32_roundtrip (bs : List UInt8) : b32Dec (b32Enc bs) = some bs := by
  unfold b32Dec
  rw [List.filter_eq_self.2, b32Loop_enc]
  intro c hc
  rcases base32_alphabet bs c hc with h | h
  · simp [b32Alpha_not_nl c h]
  · subst h; decide

/-! ## Length laws and output alphabets -/

theorem hexEnc_length (bs : List UInt8) : (hexEnc bs).length = 2 * bs.length := by
  induction bs with
  | nil => rfl
  | cons b bs ih => simp only [hexEnc, List.length_cons, ih]; omega

/-- `8 * ⌈n / 5⌉` -/
theorem b32Enc_length (bs : List UInt8) : (b32Enc bs).length = 8 * ((bs.length + 4) / 5) := by
  induction bs using b32Enc.induct with
  | case6 a b c d e rest ih =>
    rw [b32Enc, List.length_append, ih, List.length_map, b32Idx_length]
    simp only [List.length_cons]; omega
  | _ => simp [b32Enc, List.length_take, b32Idx_length, pad]

/-- `4 * ⌈n / 3⌉` -/
theorem b64uEnc_length (bs : List UInt8) : (b64uEnc bs).length = 4 * ((bs.length + 2) / 3) := by
  induction bs using b64uEnc.induct with
  | case4 a b c rest ih => simp only [b64uEnc, List.length_cons, ih]; omega
  | _ => simp [b64uEnc]

theorem hex_alphabet (bs : List UInt8) : ∀ c ∈ hexEnc bs, c ∈ "0123456789abcdef".toList := by
  induction bs with
  | nil => intro c h; simp [hexEnc] at h
  | cons b bs ih =>
    have hb := b.toNat_lt
    intro c h
    simp only [hexEnc, List.mem_cons] at h
    rcases h with rfl | rfl | h
    · exact hexDigit_mem _ (by omega)
    · exact hexDigit_mem _ (by omega)
    · exact ih c h

theorem base64url_alphabet (bs : List UInt8) :
    ∀ c ∈ b64uEnc bs,
      c ∈ "ABCDEFGHIJKLMNOPQRSTUVWXYZabcdefghijklmnopqrstuvwxyz0123456789-_".toList ∨ c = '=' := by
  have hm : ∀ n, b64uChar (n % 64) ∈ b64uAlpha := fun n => b64uChar_mem _ (Nat.mod_lt _ (by decide))
  induction bs using b64uEnc.induct with
  | case1 => intro c h; simp [b64uEnc] at h
  | case2 a =>
    intro c h
    simp only [b64uEnc, List.mem_cons, List.not_mem_nil, or_false] at h
    rcases h with rfl | rfl | rfl | rfl <;> first | exact .inl (hm _) | exact .inr rfl
  | case3 a b =>
    intro c h
    simp only [b64uEnc, List.mem_cons, List.not_mem_nil, or_false] at h
    rcases h with rfl | rfl | rfl | rfl <;> first | exact .inl (hm _) | exact .inr rfl
  | case4 a b c rest ih =>
    intro ch h
    simp only [b64uEnc, List.mem_cons] at h
    rcases h with rfl | rfl | rfl | rfl | h
    · exact .inl (hm _)
    · exact .inl (hm _)
    · exact .inl (hm _)
    · exact .inl (hm _)
    · exact ih ch h

theorem base32_alphabet' (bs : List UInt8) :
    ∀ c ∈ b32Enc bs, c ∈ "ABCDEFGHIJKLMNOPQRSTUVWXYZ234567".toList ∨ c = '=' :=
  base32_alphabet bs

/-- Unpadded base64 output never needs the 4th character to be `=` when 3 | n, etc.: the padding
    is exactly `(3 - n % 3) % 3` characters at the end (stated as the shape of the last quantum in
    the model; here the consequence used by callers: a multiple of 3 bytes gives no padding). -/
theorem b64uEnc_no_pad (bs : List UInt8) (h : bs.length % 3 = 0) : '=' ∉ b64uEnc bs := by
  have hne : ∀ n, b64uChar (n % 64) ≠ '=' := by
    intro n; exact b64uChar_ne_pad _ (Nat.mod_lt _ (by decide))
  induction bs using b64uEnc.induct with
  | case1 => simp [b64uEnc]
  | case2 a => simp at h
  | case3 a b => simp at h
  | case4 a b c rest ih =>
    simp only [List.length_cons] at h
    have ih' := ih (by omega)
    simp only [b64uEnc, List.mem_cons, not_or]
    exact ⟨(hne _).symm, (hne _).symm, (hne _).symm, (hne _).symm, ih'⟩

/-! ## Newlines are ignored by the two RFC 4648 decoders (as in Go) -/

theorem b32Dec_ignores_newlines (cs : List Char) :
    b32Dec (cs.filter fun c => !isNL c) = b32Dec cs := by
  simp [b32Dec, List.filter_filter]

/-- Go's base64 decoder skips `\r`, `\n` one at a time inside `decodeQuantum` (also between the
    padding characters); that is the same as stripping them first. -/
theorem b64uDec_ignores_newlines (cs : List Char) :
    b64uDec (cs.filter fun c => !isNL c) = b64uDec cs :=
  b64uLoop_filter cs []

/-! ## ENCODE then DECODE -/

theorem decBytes_encBytes (b : Base) (bs : List UInt8) : decBytes b (encBytes b bs) = some bs := by
  cases b
  · exact hex_roundtrip bs
  · exact base32_roundtrip bs
  · exact base64url_roundtrip bs

/-- General form: `gobEnc` may fail (as Go's does on maps and arrays); whenever ENCODE produces a
    text, DECODE with a base name that lower-cases to the same base gives the value back. -/
theorem decode_encode_of_some {V : Type} (gobEnc : V → Option (List UInt8))
    (gobDec : List UInt8 → Option V) (hgob : ∀ v bs, gobEnc v = some bs → gobDec bs = some v)
    (name name' : String) (hname : parseBase name' = parseBase name) (v : V) (text : String)
    (h : encodeWith name gobEnc v = some text) : decodeWith name' gobDec text = some v := by
  unfold encodeWith at h
  split at h
  · next bs b hbs hb =>
    injection h with h
    subst h
    simp only [decodeWith, hname, hb, String.toList_ofList, decBytes_encBytes]
    exact hgob v bs hbs
  · cases h

/-- ENCODE succeeds exactly when gob succeeds and the base is known. -/
theorem encodeWith_isSome {V : Type} (gobEnc : V → Option (List UInt8)) (name : String) (v : V) :
    (encodeWith name gobEnc v).isSome = ((gobEnc v).isSome && (parseBase name).isSome) := by
  unfold encodeWith
  cases gobEnc v <;> cases parseBase name <;> rfl

/-- The statement of the task: total `gobEnc`, each of the three bases (any spelling that
    lower-cases to `hex` / `base32` / `base64`). -/
theorem decode_encode {V : Type} (gobEnc : V → List UInt8) (gobDec : List UInt8 → Option V)
    (hgob : ∀ v, gobDec (gobEnc v) = some v) (name : String) (b : Base)
    (hb : parseBase name = some b) (v : V) :
    (encodeWith name (fun v => some (gobEnc v)) v).bind (decodeWith name gobDec) = some v := by
  have h : encodeWith name (fun v => some (gobEnc v)) v
      = some (String.ofList (encBytes b (gobEnc v))) := by simp [encodeWith, hb]
  rw [h, Option.bind_some]
  exact decode_encode_of_some _ gobDec (fun v bs hbs => by cases hbs; exact hgob v) name name rfl v
    _ h

theorem decode_encode_hex {V : Type} (gobEnc : V → List UInt8) (gobDec : List UInt8 → Option V)
    (hgob : ∀ v, gobDec (gobEnc v) = some v) (v : V) :
    (encodeWith "hex" (fun v => some (gobEnc v)) v).bind (decodeWith "HEX" gobDec) = some v := by
  have hb : parseBase "hex" = some .hex := by decide
  have h : encodeWith "hex" (fun v => some (gobEnc v)) v
      = some (String.ofList (encBytes .hex (gobEnc v))) := by simp [encodeWith, hb]
  rw [h, Option.bind_some]
  exact decode_encode_of_some _ gobDec (fun v bs hbs => by cases hbs; exact hgob v) "hex" "HEX"
    (by decide) v _ h

theorem decode_encode_base32 {V : Type} (gobEnc : V → List UInt8) (gobDec : List UInt8 → Option V)
    (hgob : ∀ v, gobDec (gobEnc v) = some v) (v : V) :
    (encodeWith "base32" (fun v => some (gobEnc v)) v).bind (decodeWith "base32" gobDec) = some v :=
  decode_encode gobEnc gobDec hgob "base32" .base32 (by decide) v

theorem decode_encode_base64 {V : Type} (gobEnc : V → List UInt8) (gobDec : List UInt8 → Option V)
    (hgob : ∀ v, gobDec (gobEnc v) = some v) (v : V) :
    (encodeWith "base64" (fun v => some (gobEnc v)) v).bind (decodeWith "base64" gobDec) = some v :=
  decode_encode gobEnc gobDec hgob "base64" .base64 (by decide) v

/-- Unknown base: both functions fail (Go: `UNSUPPORTED_CASE`). -/
theorem unknown_base {V : Type} (gobEnc : V → Option (List UInt8)) (gobDec : List UInt8 → Option V)
    (name : String) (h : parseBase name = none) (v : V) (text : String) :
    encodeWith name gobEnc v = none ∧ decodeWith name gobDec text = none := by
  constructor
  · unfold encodeWith; rw [h]; cases gobEnc v <;> rfl
  · simp [decodeWith, h]

/-- Non-vacuity of the hypotheses of `decode_encode`: `V := List UInt8`, gob := identity. -/
example : (encodeWith "Base32" (fun v => some v) [102, 111, 111]).bind
    (decodeWith "BASE32" some) = some [102, 111, 111] := by decide

example : encodeWith "base32" (fun v => some v) [102, 111, 111] = some "MZXW6===" := by decide

example : parseBase "base16" = none := by decide
/-- near misses stay unknown: U+017F (long s) is a case-folding partner of `s` but not its lower-case form; padding and
    look-alike letters are different names (round 11: a comparison by `EqualFold` accepted the first) -/
example : parseBase "ba\u017fe64" = none ∧ parseBase "BA\u017fE32" = none ∧ parseBase "base64 " = none ∧ parseBase " hex" = none
    ∧ parseBase "h\u0435x" = none ∧ parseBase "sha1" = none := by decide
example : parseHash "\u017fha1" = none ∧ parseHash "\u017fHA256" = none ∧ parseHash "sha-1" = none ∧ parseHash "md5 " = none
    ∧ parseHash "hex" = none ∧ parseHash "SHA512" ≠ none := by decide

/-! ## HASH -/

/-- Length of the HASH text, given only the digest sizes. -/
theorem hash_length {V : Type} (gobEnc : V → Option (List UInt8))
    (digest : HashAlg → List UInt8 → List UInt8)
    (h1 : ∀ bs, (digest .sha1 bs).length = 20) (h256 : ∀ bs, (digest .sha256 bs).length = 32)
    (h512 : ∀ bs, (digest .sha512 bs).length = 64) (h5 : ∀ bs, (digest .md5 bs).length = 16)
    (name : String) (v : V) (text : String) (h : hashWith name gobEnc digest v = some text) :
    ∃ alg, parseHash name = some alg ∧
      text.length = (match alg with | .sha1 => 40 | .sha256 => 64 | .sha512 => 128 | .md5 => 32) := by
  unfold hashWith at h
  split at h
  · next bs alg hbs halg =>
    injection h with h
    subst h
    refine ⟨alg, halg, ?_⟩
    rw [String.length_ofList, hexEnc_length]
    cases alg <;> simp [h1, h256, h512, h5]
  · cases h

/-- The HASH text consists of lower-case hex digits. -/
theorem hash_alphabet {V : Type} (gobEnc : V → Option (List UInt8))
    (digest : HashAlg → List UInt8 → List UInt8) (name : String) (v : V) (text : String)
    (h : hashWith name gobEnc digest v = some text) :
    ∀ c ∈ text.toList, c ∈ "0123456789abcdef".toList := by
  unfold hashWith at h
  split at h
  · injection h with h
    subst h
    rw [String.toList_ofList]
    exact hex_alphabet _
  · cases h

/-- HASH depends on its argument only through the gob bytes (and is a function: no hidden state). -/
theorem hash_pure {V : Type} (gobEnc : V → Option (List UInt8))
    (digest : HashAlg → List UInt8 → List UInt8) (name : String) (v w : V)
    (h : gobEnc v = gobEnc w) : hashWith name gobEnc digest v = hashWith name gobEnc digest w := by
  simp only [hashWith, h]

/-- Non-vacuity for `hash_length`. -/
example : hashWith "SHA1" (fun v => some v) (fun _ _ => List.replicate 20 171) [1, 2, 3]
    = some "abababababababababababababababababababab" := by decide

/-! ## Test vectors (RFC 4648 §10) and Go corner cases, by kernel evaluation -/

/-- ASCII text → bytes, for the examples. -/
def bytes (s : String) : List UInt8 := s.toList.map fun c => c.toNat.toUInt8

example : b32EncS (bytes "") = "" := by decide
example : b32EncS (bytes "f") = "MY======" := by decide
example : b32EncS (bytes "fo") = "MZXQ====" := by decide
example : b32EncS (bytes "foo") = "MZXW6===" := by decide
example : b32EncS (bytes "foob") = "MZXW6YQ=" := by decide
example : b32EncS (bytes "fooba") = "MZXW6YTB" := by decide
example : b32EncS (bytes "foobar") = "MZXW6YTBOI======" := by decide

example : b32DecS "" = some (bytes "") := by decide
example : b32DecS "MY======" = some (bytes "f") := by decide
example : b32DecS "MZXQ====" = some (bytes "fo") := by decide
example : b32DecS "MZXW6===" = some (bytes "foo") := by decide
example : b32DecS "MZXW6YQ=" = some (bytes "foob") := by decide
example : b32DecS "MZXW6YTB" = some (bytes "fooba") := by decide
example : b32DecS "MZXW6YTBOI======" = some (bytes "foobar") := by decide

example : b64uEncS (bytes "") = "" := by decide
example : b64uEncS (bytes "f") = "Zg==" := by decide
example : b64uEncS (bytes "fo") = "Zm8=" := by decide
example : b64uEncS (bytes "foo") = "Zm9v" := by decide
example : b64uEncS (bytes "foob") = "Zm9vYg==" := by decide
example : b64uEncS (bytes "fooba") = "Zm9vYmE=" := by decide
example : b64uEncS (bytes "foobar") = "Zm9vYmFy" := by decide

example : b64uDecS "" = some (bytes "") := by decide
example : b64uDecS "Zg==" = some (bytes "f") := by decide
example : b64uDecS "Zm8=" = some (bytes "fo") := by decide
example : b64uDecS "Zm9v" = some (bytes "foo") := by decide
example : b64uDecS "Zm9vYg==" = some (bytes "foob") := by decide
example : b64uDecS "Zm9vYmE=" = some (bytes "fooba") := by decide
example : b64uDecS "Zm9vYmFy" = some (bytes "foobar") := by decide

/-- The URL alphabet: `-` and `_`, not `+` and `/`. -/
example : b64uEncS [251, 255, 191] = "-_-_" := by decide
example : b64uDecS "-_-_" = some [251, 255, 191] := by decide
example : b64uDecS "+/+/" = none := by decide

example : hexEncS [] = "" := by decide
example : hexEncS [0, 10, 255, 128] = "000aff80" := by decide
example : hexDecS "000aFF80" = some [0, 10, 255, 128] := by decide
example : hexDecS "0aF" = none := by decide
example : hexDecS "0g" = none := by decide

/-! Corner cases in which the model follows Go 1.23 (each checked against the real library). -/

/-- missing / wrong padding, lower case base32, garbage after base64 padding -/
example : b32DecS "MY=====" = none := by decide
example : b32DecS "MZX=====" = none := by decide
example : b32DecS "my======" = none := by decide
example : b64uDecS "Zg=" = none := by decide
example : b64uDecS "Zg" = none := by decide
example : b64uDecS "Zg==Zg==" = none := by decide
/-- newlines are skipped, also inside the padding -/
example : b32DecS "M\nY==\r====" = some (bytes "f") := by decide
example : b64uDecS "Z\ng=\n=\n" = some (bytes "f") := by decide
/-- non-canonical trailing bits are accepted (neither decoder is strict) -/
example : b64uDecS "Zh==" = some (bytes "f") := by decide
example : b32DecS "MZ======" = some (bytes "f") := by decide
/-- Go's base32 decoder stops at the padding and IGNORES up to `j` bytes of trailing garbage. -/
example : b32DecS "AA======XY" = some [0] := by decide
example : b32DecS "AAAAAAA=1234567" = some [0, 0, 0, 0] := by decide
example : b32DecS "AAAAAAA=12345678" = none := by decide

/-! ## Axiom audit -/

#print axioms hex_roundtrip
#print axioms base32_roundtrip
#print axioms base64url_roundtrip
#print axioms hexEnc_length
#print axioms b32Enc_length
#print axioms b64uEnc_length
#print axioms hex_alphabet
#print axioms base32_alphabet
#print axioms base64url_alphabet
#print axioms b64uEnc_no_pad
#print axioms b32Dec_ignores_newlines
#print axioms b64uDec_ignores_newlines
#print axioms decode_encode_of_some
#print axioms decode_encode
#print axioms decode_encode_hex
#print axioms unknown_base
#print axioms hash_length
#print axioms hash_alphabet
#print axioms hash_pure
#print axioms Genql.Codec.Bits.b32Pack_bits
#print axioms Genql.Codec.Bits.b32Idx_bits
#print axioms Genql.Codec.Bits.b32Idx_tail_bits
#print axioms Genql.Codec.Bits.b64Bytes_bits
#print axioms Genql.Codec.Bits.b64uEnc_bits

end Genql.C18
