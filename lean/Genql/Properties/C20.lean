/-
  Property C20 — SETVAR / GETVAR behave as per-key registers in evaluation order.
-/
import Genql.Model.Vars
set_option linter.unusedSectionVars false
namespace Genql.C20
open Genql Genql.Vars
variable {V : Type}

/-- the specification: a register machine, `Key → Option Val`, last write wins -/
def Regs (V : Type) := String → Option V

def specStep (r : Regs V) : VOp V → Regs V × Option (Option V)
  | .set k v => (fun k' => if k' = k then some v else r k', none)
  | .get k => (r, some (r k))

def specRun (r : Regs V) : List (VOp V) → Regs V × List (Option (Option V))
  | [] => (r, [])
  | op :: ops =>
    let (r', o) := specStep r op
    let (r'', os) := specRun r' ops
    (r'', o :: os)

/-- abstraction: the association list as a register file -/
def abs (st : List (String × V)) : Regs V := fun k => lookup? k st

theorem abs_setKey (st : List (String × V)) (k : String) (v : V) :
    abs (setKey k v st) = fun k' => if k' = k then some v else abs st k' := by
  funext k'
  unfold abs
  by_cases h : k' = k
  · subst h; simp
  · simp [lookup?_setKey_other h, h]

/-- **refinement**: every step of the store commutes with the register machine and produces the
    same column -/
theorem step_refines (st : List (String × V)) (op : VOp V) :
    abs (step st op).1 = (specStep (abs st) op).1 ∧ (step st op).2 = (specStep (abs st) op).2 := by
  cases op with
  | set k v => exact ⟨abs_setKey st k v, rfl⟩
  | get k => exact ⟨rfl, rfl⟩

/-- **GETVAR returns the value most recently stored by SETVAR for that key, in evaluation order, or
    NULL if never set**: the whole history of columns equals the register machine's -/
theorem vars_refine_registers (st : List (String × V)) (ops : List (VOp V)) :
    abs (run st ops).1 = (specRun (abs st) ops).1 ∧ (run st ops).2 = (specRun (abs st) ops).2 := by
  induction ops generalizing st with
  | nil => exact ⟨rfl, rfl⟩
  | cons op ops ih =>
    obtain ⟨h1, h2⟩ := step_refines st op
    obtain ⟨i1, i2⟩ := ih (step st op).1
    simp only [run, specRun]
    rw [← h1]
    exact ⟨i1, by rw [h2, i2]⟩

/-- SETVAR adds no column -/
theorem setvar_no_column (st : List (String × V)) (k : String) (v : V) : (step st (.set k v)).2 = none := rfl

/-- a key never set reads as NULL -/
theorem never_set_is_null (ops : List (VOp V)) (k : String) (h : ∀ v, VOp.set k v ∉ ops) :
    abs (run ([] : List (String × V)) ops).1 k = none := by
  have key : ∀ (r : Regs V), r k = none → (specRun r ops).1 k = none := by
    induction ops with
    | nil => intro r hr; exact hr
    | cons op ops ih =>
      intro r hr
      simp only [specRun]
      apply ih (fun v hv => h v (by simp [hv]))
      cases op with
      | get k' => exact hr
      | set k' v =>
        simp only [specStep]
        have : k ≠ k' := by
          intro e; subst e; exact h v (by simp)
        simp [this, hr]
  rw [(vars_refine_registers [] ops).1]
  exact key (abs []) rfl

/-- after the history, the store holds the last value written for each key -/
def lastWrite (k : String) : List (VOp V) → Option V
  | [] => none
  | .set k' v :: ops => (match lastWrite k ops with | some w => some w | none => if k' = k then some v else none)
  | .get _ :: ops => lastWrite k ops

theorem final_store (st : List (String × V)) (ops : List (VOp V)) (k : String) :
    abs (run st ops).1 k = (match lastWrite k ops with | some w => some w | none => abs st k) := by
  rw [(vars_refine_registers st ops).1]
  generalize abs st = r
  induction ops generalizing r with
  | nil => rfl
  | cons op ops ih =>
    simp only [specRun]
    rw [ih]
    cases op with
    | get k' => simp [specStep, lastWrite]
    | set k' v =>
      simp only [specStep, lastWrite]
      cases lastWrite k ops with
      | some w => rfl
      | none =>
        by_cases hk : k' = k
        · subst hk; simp
        · have : ¬ k = k' := fun e => hk e.symm
          simp [hk, this]

/-- **a later query given the same map observes those values**: running two histories one after
    the other on the shared store is running their concatenation -/
theorem cross_query (st : List (String × V)) (ops1 ops2 : List (VOp V)) :
    run (run st ops1).1 ops2 = ((run st (ops1 ++ ops2)).1, (run st (ops1 ++ ops2)).2.drop ops1.length) ∧
    (run st (ops1 ++ ops2)).2.take ops1.length = (run st ops1).2 := by
  induction ops1 generalizing st with
  | nil => simp [run]
  | cons op ops ih =>
    obtain ⟨i1, i2⟩ := ih (step st op).1
    simp only [List.cons_append, run, List.length_cons, List.drop_succ_cons, List.take_succ_cons]
    exact ⟨i1, by rw [i2]⟩

/-- non-vacuity: a concrete history -/
example : (run ([] : List (String × Nat)) [.get "a", .set "a" 1, .get "a", .set "a" 2, .set "b" 7, .get "a", .get "c"]).2
    = [some none, none, some (some 1), none, none, some (some 2), some none] := by decide

end Genql.C20
