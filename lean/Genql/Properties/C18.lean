/-
  Property C18 — built-in functions obey their contracts for all arguments.
  (Codec round trips, DECODE∘ENCODE and HASH laws are in `Genql.Properties.C18Codec`, same namespace.)
-/
import Genql.Properties.C18Codec
import Genql.Model.Eval
import Genql.Inst.IntNum
set_option linter.unusedSectionVars false
set_option linter.unusedSimpArgs false
namespace Genql.C18
open Genql
variable {N : Type} [Num N]

/-- the call as the engine performs it once the arguments are evaluated (`Defects.none`) -/
abbrev call (name : String) (args : List (Val N)) : R (IVal N) :=
  callBuiltin false name none 0 args

theorem first_spec (xs : List (Val N)) :
    call "first" [.arr xs] = .ok (.v (xs.head?.getD .null)) ∧ call (N := N) "first" [.null] = .ok (.v .null) := by
  constructor <;> simp [call, callBuiltin, callBody, arityOf, arities, asSlice, bind, Except.bind, pure, Except.pure]

theorem last_spec (xs : List (Val N)) :
    call "last" [.arr xs] = .ok (.v (xs.getLast?.getD .null)) ∧ call (N := N) "last" [.null] = .ok (.v .null) := by
  constructor <;> simp [call, callBuiltin, callBody, arityOf, arities, asSlice, bind, Except.bind, pure, Except.pure]

/-- `ELEMENTAT(arr, i)` = `arr[i]` for an index inside the array -/
theorem elementAt_spec (xs : List (Val N)) (n : N) (i : Nat) (hi : Num.toInt? n = some (i : Int)) (x : Val N)
    (hx : xs[i]? = some x) : call "elementat" [.arr xs, .num n] = .ok (.v x) := by
  simp [call, callBuiltin, callBody, arityOf, arities, asSlice, hi, hx, bind, Except.bind, pure, Except.pure]

/-- an index outside the array (negative, or ≥ length) is an error -/
theorem elementAt_out_of_range (xs : List (Val N)) (n : N) (k : Int) (hk : Num.toInt? n = some k)
    (h : k < 0 ∨ xs.length ≤ k.toNat) : call "elementat" [.arr xs, .num n] = .error .error := by
  rcases h with h | h
  · simp [call, callBuiltin, callBody, arityOf, arities, asSlice, hk, h, bind, Except.bind, pure, Except.pure]
  · by_cases hn : k < 0
    · simp [call, callBuiltin, callBody, arityOf, arities, asSlice, hk, hn, bind, Except.bind, pure, Except.pure]
    · have : xs[k.toNat]? = none := List.getElem?_eq_none h
      simp [call, callBuiltin, callBody, arityOf, arities, asSlice, hk, hn, this, bind, Except.bind, pure, Except.pure]

/-- UNWIND flattens exactly one level: inner arrays are spliced, everything else is kept -/
theorem unwind_one_level (xs : List (Val N)) :
    call "unwind" [.arr xs] = .ok (.v (.arr (unwindOne xs))) ∧
    unwindOne xs = xs.flatMap (fun x => match x with | .arr ys => ys | x => [x]) := by
  constructor
  · simp [call, callBuiltin, callBody, arityOf, arities, asSlice, bind, Except.bind, pure, Except.pure]
  · induction xs with
    | nil => rfl
    | cons x xs ih => cases x <;> simp [unwindOne, ih]

theorem array_id (xs : List (Val N)) : call "array" xs = .ok (.v (.arr xs)) := by
  simp [call, callBuiltin, callBody, arityOf, arities]

/-- NULL arguments contribute nothing to CONCAT (as the property states it) -/
theorem concat_nonnull (xs : List (Val N)) :
    concatVals false xs = concatVals false (xs.filter (fun x => !x.isNull)) := by
  induction xs with
  | nil => rfl
  | cons x xs ih =>
    cases x <;> simp [concatVals, Val.isNull, ih, bind, Except.bind, pure, Except.pure]
    cases concatVals false (List.filter (fun x => !match x with | Val.null => true | _ => false) xs) <;> rfl

/-- right-nested concatenation of texts -/
def joinStr : List String → String
  | [] => ""
  | s :: ss => s ++ joinStr ss

/-- … and on NULL-free arguments CONCAT joins their textual forms in order -/
theorem concat_texts (b : Bool) (xs : List (Val N)) (h : ∀ x ∈ xs, x.isNull = false) (ss : List String)
    (hs : xs.map fmtV = ss.map some) : concatVals b xs = .ok (joinStr ss) := by
  induction xs generalizing ss with
  | nil => cases ss <;> simp_all [concatVals, joinStr]
  | cons x xs ih =>
    cases ss with
    | nil => simp at hs
    | cons t ts =>
      simp only [List.map_cons, List.cons.injEq] at hs
      have hx := h x (by simp)
      have ih' := ih (fun y hy => h y (by simp [hy])) ts hs.2
      cases x <;> simp [Val.isNull] at hx <;>
        simp [concatVals, fmtR, hs.1, ih', bind, Except.bind, pure, Except.pure, joinStr]

/-- the open finding: with the as-is switch a NULL argument prints as `<nil>` -/
theorem concat_nil_witness :
    concatVals (N := Int) true [.str "a", .null, .str "b"] = .ok "a<nil>b" ∧
    concatVals (N := Int) false [.str "a", .null, .str "b"] = .ok "ab" := by
  constructor <;> rfl

theorem if_spec (x y : Val N) :
    call "if" [.bool true, x, y] = .ok (.v x) ∧ call "if" [.bool false, x, y] = .ok (.v y) := by
  constructor <;> simp [call, callBuiltin, callBody, arityOf, arities]

/-- DATERANGE(f, t) = [f, t] (as texts; a NULL bound is the empty text) -/
theorem daterange_spec (f t : Val N) (fs ts : String) (hf : fmtV f = some fs) (ht : fmtV t = some ts)
    (hfn : f.isNull = false) (htn : t.isNull = false) :
    call "daterange" [f, t] = .ok (.v (.arr [.str fs, .str ts])) := by
  cases f <;> simp [Val.isNull] at hfn <;> cases t <;> simp [Val.isNull] at htn <;>
    simp [call, callBuiltin, callBody, arityOf, arities, fmtR, hf, ht, bind, Except.bind, pure, Except.pure]

theorem lower_upper_ascii (s : String) (hs : caseModelled s = true) :
    call (N := N) "to_lower" [.str s] = .ok (.v (.str (String.ofList (s.toList.map Char.toLower)))) ∧
    call (N := N) "to_upper" [.str s] = .ok (.v (.str (String.ofList (s.toList.map Char.toUpper)))) := by
  constructor <;> simp [call, callBuiltin, callBody, arityOf, arities, lowerStr, upperStr, hs]

/-- the hypothesis is satisfiable by non-trivial strings, and refuses what Go's Unicode tables decide -/
example : caseModelled "MiXed 世 123" = true ∧ caseModelled "Wörld" = false := by decide

theorem changetype_array (x : Val N) (hx : x.isNull = false) :
    call "changetype" [x, .str "array"] = .ok (.v (.arr [x])) := by
  have : lowerStr "array" = "array" := by decide
  cases x <;> simp [Val.isNull] at hx <;> simp [call, callBuiltin, callBody, arityOf, arities, this]

theorem changetype_string (x : Val N) (hx : x.isNull = false) (s : String) (hs : fmtV x = some s) :
    call "changetype" [x, .str "string"] = .ok (.v (.str s)) := by
  have : lowerStr "string" = "string" := by decide
  cases x <;> simp [Val.isNull] at hx <;>
    simp [call, callBuiltin, callBody, arityOf, arities, this, fmtR, hs, bind, Except.bind, pure, Except.pure]

/-- **every fixed-arity function rejects a wrong argument count with an error** -/
theorem arity_guard (name : String) (n : Nat) (h : arityOf name = some n) (args : List (Val N))
    (hlen : args.length ≠ n) : call name args = .error .error := by
  simp [call, callBuiltin, h, hlen]

/-- the table is not empty talk: e.g. ELEMENTAT takes exactly two arguments -/
example : arityOf "elementat" = some 2 ∧ arityOf "if" = some 3 ∧ arityOf "concat" = none := by decide

/-- CONSTANT(k) returns the configured constant; an unknown key or no constants at all is an error -/
theorem constant_lookup (env : Env N) (ctx : Ctx N) (cur : Row N) (k : String) :
    evalExpr env ctx cur (.func .none "constant" [.str k]) =
      (match env.constants with
       | some cs => (match lookup? k cs with
          | some v => .ok (.v v)
          | none => .error .error)
       | none => .error .error) := by
  simp only [evalExpr, evalArgs, valueOf, bind, Except.bind, pure, Except.pure, if_true, fmtR, fmtV]
  cases env.constants with
  | none => rfl
  | some cs => cases lookup? k cs <;> rfl

end Genql.C18
