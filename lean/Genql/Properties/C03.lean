/-
  Property C03 — GROUP BY partitions the rows; aggregates cover exactly their group; WHERE honoured.

  `scanG` is the linear scan of `ExecGroupBy` (`groupLoop`) with key extraction / key comparison that
  do not fail; `groupsSpec` is the textbook grouping: the distinct keys in order of first appearance,
  each with the rows carrying that key, in source order.
-/
import Genql.Properties.C06
import Genql.Properties.C01
import Genql.Model.Eval
import Genql.Lawful
set_option linter.unusedSectionVars false
set_option linter.unusedVariables false
set_option linter.unusedSimpArgs false
namespace Genql.C03
open Genql Genql.C06
variable {α κ : Type}

/-! ### the scan, without the error plumbing -/

def addG (same : κ → κ → Bool) (k : κ) (x : α) : List (κ × List α) → List (κ × List α)
  | [] => [(k, [x])]
  | (k', xs) :: gs => if same k' k then (k', xs ++ [x]) :: gs else (k', xs) :: addG same k x gs

def scanG (same : κ → κ → Bool) (key : α → κ) : List α → List (κ × List α) → List (κ × List α)
  | [], acc => acc
  | x :: xs, acc => scanG same key xs (addG same (key x) x acc)

theorem addToGroup_pure (same : κ → κ → Bool) (eq : κ → κ → R Bool) (heq : ∀ a b, eq a b = .ok (same a b))
    (k : κ) (x : α) (gs : List (κ × List α)) : addToGroup eq k x gs = .ok (addG same k x gs) := by
  induction gs with
  | nil => rfl
  | cons g gs ih =>
    obtain ⟨k', xs⟩ := g
    simp only [addToGroup, heq, addG, bind, Except.bind, pure, Except.pure]
    cases same k' k <;> simp [ih]

/-- the model's `groupLoop` is the pure scan whenever reading keys and comparing them succeed -/
theorem groupLoop_pure (same : κ → κ → Bool) (key : α → κ) (keyOf : α → R κ) (eq : κ → κ → R Bool)
    (hk : ∀ x, keyOf x = .ok (key x)) (heq : ∀ a b, eq a b = .ok (same a b)) :
    ∀ (xs : List α) (acc : List (κ × List α)), groupLoop keyOf eq xs acc = .ok (scanG same key xs acc) := by
  intro xs
  induction xs with
  | nil => intro acc; rfl
  | cons x xs ih =>
    intro acc
    simp only [groupLoop, hk, addToGroup_pure same eq heq, scanG, bind, Except.bind, ih]

/-! ### the specification -/

/-- textbook grouping -/
def groupsSpec (same : κ → κ → Bool) (key : α → κ) (xs : List α) : List (κ × List α) :=
  (specDedup same (xs.map key)).map (fun k => (k, xs.filter (fun x => same k (key x))))

theorem scanG_append (same : κ → κ → Bool) (key : α → κ) (xs ys : List α) (acc : List (κ × List α)) :
    scanG same key (xs ++ ys) acc = scanG same key ys (scanG same key xs acc) := by
  induction xs generalizing acc with
  | nil => rfl
  | cons x xs ih => simp [scanG, ih]

theorem specDedup_snoc (same : κ → κ → Bool) (l : List κ) (k : κ) :
    specDedup same (l ++ [k]) =
      if l.any (fun a => same a k) then specDedup same l else specDedup same l ++ [k] := by
  induction l with
  | nil => simp [specDedup]
  | cons a l ih =>
    simp only [List.cons_append, specDedup, ih, List.any_cons]
    by_cases h1 : l.any (fun a => same a k) = true
    · simp [h1]
    · have h1' : l.any (fun a => same a k) = false := by simpa using h1
      simp only [h1', Bool.false_eq_true, if_false, Bool.or_false, List.filter_append]
      cases hak : same a k <;> simp [List.filter_cons, hak]

theorem any_specDedup (same : κ → κ → Bool) (h : Equiv same) (l : List κ) (k : κ) :
    (specDedup same l).any (fun a => same a k) = l.any (fun a => same a k) := by
  rw [Bool.eq_iff_iff, List.any_eq_true, List.any_eq_true]
  constructor
  · rintro ⟨a, ha, hak⟩; exact ⟨a, (specDedup_sublist same l).subset ha, hak⟩
  · rintro ⟨a, ha, hak⟩
    obtain ⟨y, hy, hya⟩ := specDedup_covers same h l a ha
    exact ⟨y, hy, h.trans y a k hya hak⟩

/-- one step of the scan on a key-indexed list with pairwise different keys -/
theorem addG_map (same : κ → κ → Bool) (h : Equiv same) (k : κ) (x : α) (f : κ → List α) :
    ∀ (ks : List κ), ks.Pairwise (fun a b => same a b = false) →
      addG same k x (ks.map (fun k' => (k', f k'))) =
        if ks.any (fun a => same a k)
        then ks.map (fun k' => (k', if same k' k then f k' ++ [x] else f k'))
        else ks.map (fun k' => (k', f k')) ++ [(k, [x])] := by
  intro ks
  induction ks with
  | nil => intro _; simp [addG]
  | cons k0 ks ih =>
    intro hp
    simp only [List.pairwise_cons] at hp
    simp only [List.map_cons, addG, List.any_cons]
    cases h0 : same k0 k with
    | true =>
      simp only [if_true, Bool.true_or, List.cons.injEq, true_and]
      apply List.map_congr_left
      intro k' hk'
      have : same k' k = false := by
        cases hs : same k' k with
        | false => rfl
        | true =>
          have : same k0 k' = true := h.trans k0 k k' h0 (by rw [h.symm]; exact hs)
          rw [hp.1 k' hk'] at this; cases this
      simp [this]
    | false =>
      simp only [Bool.false_eq_true, if_false, Bool.false_or, ih hp.2]
      split <;> simp

/-- one more row: the scan step turns the grouping of `p` into the grouping of `p ++ [x]` -/
theorem addG_groupsSpec (same : κ → κ → Bool) (h : Equiv same) (key : α → κ) (p : List α) (x : α) :
    addG same (key x) x (groupsSpec same key p) = groupsSpec same key (p ++ [x]) := by
  simp only [groupsSpec, List.map_append, List.map_cons, List.map_nil]
  rw [addG_map same h (key x) x _ _ (specDedup_nodup same _), specDedup_snoc, any_specDedup same h]
  have hany : (p.map key).any (fun a => same a (key x)) = p.any (fun y => same (key y) (key x)) := by
    simp [List.any_map, Function.comp_def]
  rw [hany]
  by_cases hex : p.any (fun y => same (key y) (key x)) = true
  · simp only [hex, if_true]
    apply List.map_congr_left
    intro k' _
    simp only [List.filter_append, List.filter_cons, List.filter_nil]
    cases same k' (key x) <;> simp
  · have hex' : p.any (fun y => same (key y) (key x)) = false := by simpa using hex
    simp only [hex', Bool.false_eq_true, if_false, List.map_append, List.map_cons, List.map_nil]
    congr 1
    · apply List.map_congr_left
      intro k' hk'
      have hk'' := (specDedup_sublist same _).subset hk'
      simp only [List.mem_map] at hk''
      obtain ⟨y, hy, rfl⟩ := hk''
      have : same (key y) (key x) = false := by
        have := List.any_eq_false.mp hex' y hy
        simpa using this
      simp [List.filter_append, this]
    · have : p.filter (fun y => same (key x) (key y)) = [] := by
        apply List.filter_eq_nil_iff.mpr
        intro y hy
        have := List.any_eq_false.mp hex' y hy
        rw [h.symm]; simpa using this
      simp [List.filter_append, this, h.refl]

theorem scanG_groupsSpec (same : κ → κ → Bool) (h : Equiv same) (key : α → κ) (xs p : List α) :
    scanG same key xs (groupsSpec same key p) = groupsSpec same key (p ++ xs) := by
  induction xs generalizing p with
  | nil => simp [scanG]
  | cons x xs ih =>
    simp only [scanG, addG_groupsSpec same h key p x, ih]
    simp

/-- **GROUP BY = textbook grouping**: groups in order of first appearance of their key, each with
    exactly the rows carrying that key, in source order. -/
theorem groups_eq_spec (same : κ → κ → Bool) (h : Equiv same) (key : α → κ) (xs : List α) :
    scanG same key xs [] = groupsSpec same key xs := by
  have := scanG_groupsSpec same h key xs []
  simpa [groupsSpec, specDedup] using this


/-! ### consequences named in the property -/

/-- groups appear in order of first appearance of their key -/
theorem groups_first_appearance (same : κ → κ → Bool) (key : α → κ) (xs : List α) :
    (groupsSpec same key xs).map (·.1) = specDedup same (xs.map key) := by
  simp [groupsSpec, List.map_map, Function.comp_def]

/-- no two groups have the same key -/
theorem groups_nodup_keys (same : κ → κ → Bool) (key : α → κ) (xs : List α) :
    ((groupsSpec same key xs).map (·.1)).Pairwise (fun a b => same a b = false) := by
  rw [groups_first_appearance]; exact specDedup_nodup same _

/-- membership: a row is in the group of key `k` iff it is a source row whose key is `same` as `k` -/
theorem mem_group_iff (same : κ → κ → Bool) (key : α → κ) (xs : List α) (k : κ) (ms : List α)
    (hg : (k, ms) ∈ groupsSpec same key xs) (x : α) : x ∈ ms ↔ x ∈ xs ∧ same k (key x) = true := by
  simp only [groupsSpec, List.mem_map, Prod.mk.injEq] at hg
  obtain ⟨k', _, rfl, rfl⟩ := hg
  simp [List.mem_filter]

/-- two rows share a group iff they agree on the grouping key -/
theorem same_group_iff (same : κ → κ → Bool) (h : Equiv same) (key : α → κ) (xs : List α) (x y : α)
    (hx : x ∈ xs) (hy : y ∈ xs) :
    (∃ g ∈ groupsSpec same key xs, x ∈ g.2 ∧ y ∈ g.2) ↔ same (key x) (key y) = true := by
  constructor
  · rintro ⟨⟨k, ms⟩, hg, hxm, hym⟩
    have h1 := ((mem_group_iff same key xs k ms hg x).mp hxm).2
    have h2 := ((mem_group_iff same key xs k ms hg y).mp hym).2
    exact h.trans _ k _ (by rw [h.symm]; exact h1) h2
  · intro hxy
    obtain ⟨k, hk, hkx⟩ := specDedup_covers same h (xs.map key) (key x) (List.mem_map.mpr ⟨x, hx, rfl⟩)
    refine ⟨(k, xs.filter (fun z => same k (key z))), ?_, ?_, ?_⟩
    · simp only [groupsSpec, List.mem_map]; exact ⟨k, hk, rfl⟩
    · simp [List.mem_filter, hx, hkx]
    · simp [List.mem_filter, hy, h.trans k (key x) (key y) hkx hxy]

theorem flatMap_filter_perm (same : κ → κ → Bool) (h : Equiv same) (key : α → κ) :
    ∀ (ks : List κ) (l : List α), ks.Pairwise (fun a b => same a b = false) →
      (∀ x ∈ l, ∃ k ∈ ks, same k (key x) = true) →
      (ks.flatMap (fun k => l.filter (fun x => same k (key x)))).Perm l := by
  intro ks
  induction ks with
  | nil =>
    intro l _ hcov
    cases l with
    | nil => simp
    | cons x l => obtain ⟨k, hk, _⟩ := hcov x (by simp); cases hk
  | cons k0 ks ih =>
    intro l hp hcov
    simp only [List.pairwise_cons] at hp
    simp only [List.flatMap_cons]
    have hrest : ks.flatMap (fun k => l.filter (fun x => same k (key x))) =
        ks.flatMap (fun k => (l.filter (fun x => !same k0 (key x))).filter (fun x => same k (key x))) := by
      rw [List.flatMap_def, List.flatMap_def]
      congr 1
      apply List.map_congr_left
      intro k hk
      rw [List.filter_filter]
      apply List.filter_congr
      intro x _
      cases hkx : same k (key x) with
      | false => simp
      | true =>
        have : same k0 (key x) = false := by
          cases h0 : same k0 (key x) with
          | false => rfl
          | true =>
            have : same k0 k = true := h.trans k0 (key x) k h0 (by rw [h.symm]; exact hkx)
            rw [hp.1 k hk] at this; cases this
        simp [this]
    rw [hrest]
    have ih' := ih (l.filter (fun x => !same k0 (key x))) hp.2 (by
      intro x hx
      simp only [List.mem_filter, Bool.not_eq_true'] at hx
      obtain ⟨k, hk, hkx⟩ := hcov x hx.1
      rcases List.mem_cons.mp hk with rfl | hk'
      · rw [hx.2] at hkx; cases hkx
      · exact ⟨k, hk', hkx⟩)
    exact (List.Perm.append_left _ ih').trans (List.filter_append_perm _ l)

/-- **partition**: every row that passed WHERE lands in exactly one group — the members of all
    groups together are a permutation of the rows -/
theorem groups_partition (same : κ → κ → Bool) (h : Equiv same) (key : α → κ) (xs : List α) :
    ((groupsSpec same key xs).flatMap (·.2)).Perm xs := by
  simp only [groupsSpec, List.flatMap_map]
  apply flatMap_filter_perm same h key _ xs (specDedup_nodup same _)
  intro x hx
  exact specDedup_covers same h (xs.map key) (key x) (List.mem_map.mpr ⟨x, hx, rfl⟩)

/-- **conservation**: the group sizes (the COUNT(*) of each group) add up to the number of rows -/
theorem count_conservation (same : κ → κ → Bool) (h : Equiv same) (key : α → κ) (xs : List α) :
    ((groupsSpec same key xs).map (·.2.length)).sum = xs.length := by
  have := (groups_partition same h key xs).length_eq
  rw [← this, List.length_flatMap]


/-! ### aggregate bodies -/

section aggr
variable {N : Type} [Num N]

/-- the numbers of a column, NULL members dropped (`none` if something is not a number) -/
def numsOf : List (Val N) → Option (List N)
  | [] => some []
  | .null :: xs => numsOf xs
  | .num n :: xs => (numsOf xs).map (n :: ·)
  | _ => none

theorem sumLoop_spec (xs : List (Val N)) (ns : List N) (h : numsOf xs = some ns) (acc : Option N) :
    sumLoop xs acc = .ok (ns.foldl (fun (a : Option N) n => some (match a with
      | some s => Num.add s n | none => Num.add (Num.ofInt 0) n)) acc) := by
  induction xs generalizing ns acc with
  | nil => simp [numsOf] at h; subst h; rfl
  | cons x xs ih =>
    cases x <;> simp [numsOf] at h
    · exact (by simpa [sumLoop] using ih ns h acc)
    · obtain ⟨ms, hms, rfl⟩ := h
      simp only [sumLoop, toFloat64, bind, Except.bind, ih ms hms, List.foldl_cons]
      cases acc <;> rfl

/-- **SUM ignores NULL members, and is NULL when there is no non-NULL member** -/
theorem sum_ignores_null (xs : List (Val N)) (ns : List N) (h : numsOf xs = some ns) :
    callBuiltin false "sum" none 0 [.arr xs] = .ok (.v (match ns with
      | [] => .null
      | n :: rest => .num (rest.foldl Num.add (Num.add (Num.ofInt 0) n)))) := by
  have hs := sumLoop_spec xs ns h none
  simp only [callBuiltin, callBody, arityOf, arities, asSlice, hs, bind, Except.bind, pure, Except.pure]
  cases ns with
  | nil => rfl
  | cons n rest =>
    simp only [List.foldl_cons, optNum]
    have : ∀ (l : List N) (a : N), l.foldl (fun (a : Option N) n => some (match a with
        | some s => Num.add s n | none => Num.add (Num.ofInt 0) n)) (some a) = some (l.foldl Num.add a) := by
      intro l
      induction l with
      | nil => intro a; rfl
      | cons m l ih => intro a; simp [ih]
    simp [this]

theorem minLoop_spec (better : N → N → Bool) (xs : List (Val N)) (ns : List N) (h : numsOf xs = some ns)
    (acc : Option N) :
    minLoop better xs acc = .ok (ns.foldl (fun (a : Option N) n => some (match a with
      | some m => if better n m then n else m | none => n)) acc) := by
  induction xs generalizing ns acc with
  | nil => simp [numsOf] at h; subst h; rfl
  | cons x xs ih =>
    cases x <;> simp [numsOf] at h
    · exact (by simpa [minLoop] using ih ns h acc)
    · obtain ⟨ms, hms, rfl⟩ := h
      simp only [minLoop, toFloat64, bind, Except.bind, ih ms hms, List.foldl_cons]
      cases acc <;> rfl

/-- **MIN / MAX ignore NULL members** (the running best over the non-NULL members, NULL if none) -/
theorem minmax_spec (xs : List (Val N)) (ns : List N) (h : numsOf xs = some ns) :
    callBuiltin false "min" none 0 [.arr xs] = .ok (.v (optNum (ns.foldl (fun (a : Option N) n => some (match a with
      | some m => if Num.lt n m then n else m | none => n)) none))) ∧
    callBuiltin false "max" none 0 [.arr xs] = .ok (.v (optNum (ns.foldl (fun (a : Option N) n => some (match a with
      | some m => if Num.lt m n then n else m | none => n)) none))) := by
  constructor <;>
    simp [callBuiltin, callBody, arityOf, arities, asSlice, minLoop_spec _ xs ns h none, bind, Except.bind, pure, Except.pure]

/-- **AVG = SUM / COUNT on a column without NULLs** -/
theorem avg_is_sum_div_count (ns : List N) (n : N) :
    callBuiltin false "avg" none 0 [.arr ((n :: ns).map Val.num)] =
      .ok (.v (.num (Num.div (ns.foldl Num.add (Num.add (Num.ofInt 0) n)) (Num.ofInt ((n :: ns).length))))) := by
  have hnums : numsOf ((n :: ns).map Val.num) = some (n :: ns) := by
    generalize n :: ns = l
    induction l with
    | nil => rfl
    | cons a l ih => simp [numsOf, ih]
  have hs := sumLoop_spec _ _ hnums none
  have : ∀ (l : List N) (a : N), l.foldl (fun (a : Option N) n => some (match a with
      | some s => Num.add s n | none => Num.add (Num.ofInt 0) n)) (some a) = some (l.foldl Num.add a) := by
    intro l
    induction l with
    | nil => intro a; rfl
    | cons m l ih => intro a; simp [ih]
  simp only [callBuiltin, callBody, arityOf, arities, asSlice, hs, bind, Except.bind, pure, Except.pure]
  simp [this]

/-- COUNT(*) is the number of members of the group (`current["*"]`), COUNT(col) the length of the column -/
theorem count_spec (ms : List (Val N)) (col : List (Val N)) :
    callBuiltin false "count" (some ms) 0 [] = .ok (.v (.num (Num.ofInt ms.length))) ∧
    callBuiltin false "count" (some ms) 0 [.arr col] = .ok (.v (.num (Num.ofInt col.length))) := by
  constructor <;> simp [callBuiltin, callBody, arityOf, arities, asSlice, bind, Except.bind, pure, Except.pure]

end aggr


/-! ### whole-table aggregates honour WHERE -/

section whole
variable {N : Type} [Num N] [LawfulNum N]
open Genql.C01

/-- **Without GROUP BY an all-aggregate select list yields exactly one row, computed over the rows
    that passed WHERE** — here for `SELECT COUNT(*) AS n FROM t WHERE p`: the single row holds the
    number of satisfying rows (0 when none did). -/
theorem whole_table_one_row (env : Env N) (data : Row N) (t : String) (rows : List (Row N)) (p : Expr N)
    (ht : Val.get data t = .arr (rows.map Val.obj)) (hwt : ∀ r ∈ rows, WT r p) :
    execQuery env data {} (.select [] false [.item (.aggr "count" []) "n" "n"] (.table [t] "" t) p []
        (.bool true) [] none none)
      = .ok (.arr [.obj [("n", .num (Num.ofInt (rows.filter (sem · p)).length))]]) := by
  have hE : ("" : String).isEmpty = true := by decide
  simp only [execQuery, prepare, evalCtes, evalFrom, cteNames, List.append_nil, List.not_mem_nil,
    if_false, readPath_single, ht, asArray, processAlias, bind, Except.bind, pure, Except.pure,
    hE, if_true, execLevel, List.isEmpty_nil, Bool.not_true]
  rw [levelLoop_flat _ _ _ rows (fun r => sem r p) (by
    intro r hr
    simp [evalPred_sound env ⟨data, false, false, _, _⟩ rfl r p (hwt r hr), rawBool])]
  have hmem : "count" ∈ aggrNames := by decide
  simp [isAllAggr, selectRowsWith, sortRows, window_none, evalSel, evalExpr, hmem, evalAggrArgs, callBuiltin, callBody,
    arityOf, arities, starOf, lookup?, valueOf, setKey, bind, Except.bind, pure, Except.pure]

end whole

end Genql.C03
