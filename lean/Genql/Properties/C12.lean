/-
  Property C12 — results are plain, self-contained data and evaluation is deterministic.

  In the model a result is a `Val N`, which cannot hold an engine-internal wrapper by construction;
  the content of the plainness claim is therefore (a) that every wrapper `Expr` can return is resolved
  by `ValueOf` before it is stored, (b) that composite results (tuples, DATERANGE, ARRAY) are built from
  resolved values, and (c) that the navigation marker never reaches an output row.  Determinism: the
  model has no iteration-order parameter where the property promises a sequence (grouping is the
  first-appearance order), and where Go iterates a map (joins) every order gives the same multiset.
-/
import Genql.Properties.C02
import Genql.Properties.C03
import Genql.Properties.C04
set_option linter.unusedSectionVars false
set_option linter.unusedVariables false
set_option linter.unusedSimpArgs false
namespace Genql.C12
open Genql
variable {N : Type} [Num N]

/-- the engine-internal wrappers -/
def Internal : IVal N → Prop
  | .v _ => False
  | _ => True

/-- (a) `ValueOf` resolves every wrapper to a plain value (or fails) — nothing internal is stored -/
theorem valueOf_plain (cur : Row N) (x : IVal N) (hx : x ≠ .omit) :
    (∃ v : Val N, valueOf cur x = .ok v) ∨ (∃ e, valueOf cur x = .error e ∧ ∃ p, x = .col p) :=
  Genql.C02.select_plain cur x hx

/-- (b) a value tuple is an array of resolved values: no `NeutalString`, no `*float64` inside -/
theorem tuple_plain (env : Env N) (ctx : Ctx N) (cur : Row N) (xs : List (Expr N)) (x : IVal N)
    (h : evalExpr env ctx cur (.tuple xs) = .ok x) : ∃ vs : List (Val N), x = .v (.arr vs) := by
  simp only [evalExpr, bind, Except.bind, pure, Except.pure] at h
  split at h
  · cases h
  · rename_i vs _; cases h; exact ⟨vs, rfl⟩

/-- (b) DATERANGE returns a plain two-element array of texts -/
theorem daterange_plain (f t : Val N) (x : IVal N)
    (h : callBuiltin false "daterange" none 0 [f, t] = .ok x) : ∃ a b : String, x = .v (.arr [.str a, .str b]) := by
  simp only [callBuiltin, arityOf, arities, callBody, List.find?, bind, Except.bind, pure, Except.pure] at h
  simp at h
  split at h
  · cases h
  · split at h
    · cases h
    · cases h; exact ⟨_, _, rfl⟩

/-- (b) ARRAY returns its (resolved) arguments -/
theorem array_plain (xs : List (Val N)) : callBuiltin false "array" none 0 xs = .ok (.v (.arr xs)) := by
  simp [callBuiltin, arityOf, arities, callBody]

/-- (c) no `<-` key in any projected row -/
theorem result_no_marker (env : Env N) (ctx : Ctx N) (cur : Row N) (sel : List (SelItem N)) (out : Row N)
    (hw : ∀ e key alias, SelItem.item e key alias ∈ sel → Genql.C02.Writes env ctx cur e)
    (hk : ∀ e key alias, SelItem.item e key alias ∈ sel → key ≠ "<-")
    (h : evalSel env ctx cur sel [] = .ok out) : lookup? "<-" out = none :=
  Genql.C02.select_no_marker env ctx cur sel out hw hk h

/-- `SELECT * FROM dual` -/
def starDual : Query N := .select [] false [.star] (.table ["dual"] "" "dual") (.bool true) [] (.bool true) [] none none

/-- (c) **the scalar sub-query `(SELECT * FROM dual)`** — which reads the current row WITH its navigation marker —
    returns a copy of the row without the marker: the star projection removes it before the value is stored -/
theorem subq_star_dual (env : Env N) (ctx : Ctx N) (cur : Row N) (hd : lookup? "dual" cur = none) :
    evalExpr env ctx cur (.subq starDual) =
      .ok (.v (.obj (copyInto [] (delKey "<-" (withMarker cur ctx.data))))) := by
  have hne : ("dual" : String) ≠ "<-" := by decide
  have hget : Val.get (withMarker cur ctx.data) "dual" = .null := by
    unfold Val.get withMarker
    rw [lookup?_setKey_other hne, hd]
  simp only [starDual, evalExpr, prepare, evalCtes, evalFrom, cteNames, List.append_nil, List.not_mem_nil, if_false,
    Genql.readPath_single, hget, if_true, bind, Except.bind, pure, Except.pure, isAllAggr, Bool.false_and,
    selectRowsWith, mapE, evalSel, List.head?_cons, Option.getD_some, Bool.false_eq_true]

theorem subq_star_dual_no_marker (env : Env N) (ctx : Ctx N) (cur : Row N) (hd : lookup? "dual" cur = none) :
    ∃ fs : Row N, evalExpr env ctx cur (.subq starDual) = .ok (.v (.obj fs)) ∧ lookup? "<-" fs = none := by
  refine ⟨_, subq_star_dual env ctx cur hd, ?_⟩
  rw [Genql.C02.lookup?_copyInto]
  have : lookup? "<-" (delKey "<-" (withMarker cur ctx.data)).reverse = none := by
    have h := Genql.C02.hasKey_reverse "<-" (delKey "<-" (withMarker cur ctx.data))
    have h2 := Genql.C02.lookup?_delKey_same "<-" (withMarker cur ctx.data)
    cases hl : lookup? "<-" (delKey "<-" (withMarker cur ctx.data)).reverse with
    | none => rfl
    | some v =>
      exfalso
      have : Genql.C02.hasKey "<-" (delKey "<-" (withMarker cur ctx.data)).reverse = true := by
        simp [Genql.C02.hasKey, hl]
      rw [h] at this
      simp [Genql.C02.hasKey, h2] at this
  rw [this]; rfl

/-- evaluation is a function of (document, query): an equal input gives an equal result -/
theorem deterministic (env : Env N) (d1 d2 : Row N) (sc : Scope) (q : Query N) (h : d1 = d2) :
    execQuery env d1 sc q = execQuery env d2 sc q := by rw [h]

/-- grouping has no iteration-order oracle: the sequence of groups is the first-appearance order of
    the keys, a function of the rows alone -/
theorem group_order_oracle_free {α κ : Type} (same : κ → κ → Bool) (h : Genql.C06.Equiv same) (key : α → κ)
    (xs : List α) : (Genql.C03.scanG same key xs []).map (·.1) = Genql.C06.specDedup same (xs.map key) := by
  rw [Genql.C03.groups_eq_spec same h key xs, Genql.C03.groups_first_appearance]

/-- joins: whatever order the left key groups are visited in (Go map order, goroutine schedule), the
    result is the same multiset -/
theorem join_multiset_deterministic {α β γ κ : Type} [DecidableEq κ] (pair : α → β → γ) (kl : α → κ) (kr : β → κ)
    (l : List α) (r : List β) (σ₁ σ₂ : List (κ × List α))
    (h1 : σ₁.Perm (Genql.C04.catalogue kl l)) (h2 : σ₂.Perm (Genql.C04.catalogue kl l)) :
    (σ₁.flatMap fun g => g.2.flatMap fun a => (Genql.C04.lookupCat g.1 (Genql.C04.catalogue kr r)).map (pair a)).Perm
    (σ₂.flatMap fun g => g.2.flatMap fun a => (Genql.C04.lookupCat g.1 (Genql.C04.catalogue kr r)).map (pair a)) :=
  (Genql.C04.map_order_independent pair kl kr l r σ₁ h1).trans (Genql.C04.map_order_independent pair kl kr l r σ₂ h2).symm

end Genql.C12
