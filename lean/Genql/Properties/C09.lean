/-
  Property C09 — "Evaluating a path selector against a JSON-like document returns what the
  documented meaning prescribes: `a.b` descends objects and maps over arrays, `[i]` and `[i:j]`
  index successive dimensions, `each` iterates a dimension and flattens, `keep=>` preserves the
  nesting, `(m:n)` with `begin`/`end` slices, `{k|type,...}` reshapes and converts, quoted keys are
  literal, `::` continues from the previous result, and `fn=>` applies a registered top-level
  function; a missing key yields NULL.  Applying a step to a value of the wrong shape, or an index
  or slice bound outside the array, yields an error - never a panic - and evaluation never
  modifies the document."

  The model (`Genql.Model.Selector`) mirrors `selector.go` function by function, with every
  panicking Go operation as an explicit `.error .panic` outcome behind the guard the Go code has.

  Totality
  * `sel_total_no_panic`      : for EVERY document and EVERY string used as a selector, `ExecReader`
                                returns a value or an error, never a panic (`…_registry`: also for any
                                registry of top level functions that do not panic themselves;
                                `parse_no_panic`: the parser alone).
  The documented meaning (each law for all documents and all continuations of the path)
  * `evalSteps_keys`          : on key-only paths the evaluator is `readPath`.
  * `key_on_object`, `key_maps_arrays`, `missing_key_null`, `evalSteps_null`.
  * `index_in_range`, `index_out_of_range_error`, `selDim_index_in_range`, `selDim_index_out_of_range`.
  * `range_is_slice`, `selDim_range`, `range_out_of_bounds_error`, `range_begin_end`,
    `range_prefix`, `range_suffix`.
  * `each_iterates`, `each_flattens` (+ `unwind_eq_flattenN`: `Unwind` is textbook flattening),
    `dims_eq_flattened_keep`, `each_each_concat`, `keep_preserves_nesting`, `keep_each_length`.
  * `continue_is_composition` (+ `continue_parse_error`).
  * `pipe_on_object`, `pipe_maps_arrays`, `pipe_reshape`, `pipe_conv_none`, `pipe_conv_string_int`,
    `pipe_conv_string_str`, `pipe_conv_number_not_string`, `pipe_conv_unknown`.
  * `quoted_key_literal`, `quoted_key_reads`.
  * `toplevel_fn_applied_last`, `toplevel_fn_unknown`, `toplevel_fn_parse`, `builtins_mix`,
    `builtins_distinct`, `mix_flat_idempotent`, `mix_flat`.
  * `wrong_shape_error`, `dim_on_non_array`.
  Selector text
  * `parse_keys`, `exec_keys` : dotted `\w+` identifiers are exactly key steps / `readPath`.
  * `print_parse_roundtrip`   : every well-formed AST is parsed back from its printed text.
  * `example`s                : the README's selectors evaluated by the kernel on small documents.

  "never modifies the document" holds by construction of the model (values are immutable); that
  the Go code performs no write through `data` is a syntactic fact checked on the Go side.
-/
import Genql.Proofs.Selector
import Genql.Proofs.SelectorRoundTrip
import Genql.Inst.IntNum
set_option linter.unusedSectionVars false
namespace Genql.C09
open Genql Genql.Sel
variable {N : Type} [Num N]

/-! ## Totality: an error, never a panic -/

/-- `ExecReader` never panics: all documents, ARBITRARY strings as selectors. -/
theorem sel_total_no_panic (doc : Val N) (s : String) : execReader doc s ≠ .error .panic :=
  execReaderWith_noPanic builtins_safe doc s

/-- the same with any registry of top level functions that do not panic themselves -/
theorem sel_total_no_panic_registry (reg : Registry N) (hreg : SafeRegistry reg) (doc : Val N) (s : String) :
    execReaderWith reg doc s ≠ .error .panic :=
  execReaderWith_noPanic hreg doc s

/-- parsing alone never panics either (`match[0]`, `split[0]` are always in range) -/
theorem parse_no_panic (s : String) : parseSelector s ≠ .error .panic :=
  parseSelectorL_noPanic s.toList

/-! ## Key steps: `a.b` descends objects, maps over arrays; a missing key is NULL -/

/-- the evaluator agrees with `readPath` (the key-only fragment used for column paths) -/
theorem evalSteps_keys (keys : List String) (d : Val N) :
    execSteps (keys.map .key) d = readPath keys d := by
  induction keys generalizing d with
  | nil => rfl
  | cons k ks ih =>
    have : (evalSteps (ks.map Step.key) : Val N → R (Val N)) = readPath ks := funext ih
    simp only [execSteps, List.map_cons, evalSteps, readPath] at this ⊢
    rw [this]

/-- a key step on an object continues with the value stored under the key -/
theorem key_on_object (k : String) (rest : List Step) (fs : Row N) :
    evalSteps (.key k :: rest) (.obj fs) = evalSteps rest (Val.get fs k) := by
  simp [evalSteps, keyStep]

/-- a key step on an array is applied (with the whole rest of the path) to every element -/
theorem key_maps_arrays (k : String) (rest : List Step) (xs : List (Val N)) :
    evalSteps (.key k :: rest) (.arr xs) = .arr <$> mapE (evalSteps (.key k :: rest)) xs := by
  simp only [evalSteps, keyStep, keyStepList_eq_mapE]
  cases mapE (keyStep k (evalSteps rest)) xs <;> rfl

/-- NULL stays NULL under every non-empty path -/
theorem evalSteps_null (st : Step) (rest : List Step) : evalSteps (st :: rest) (.null : Val N) = .ok .null := by
  cases st <;> simp [evalSteps, keyStep, dimsStep, keepStep, pipeStep]

/-- a missing key yields NULL, whatever follows it in the path -/
theorem missing_key_null (k : String) (rest : List Step) (fs : Row N) (h : lookup? k fs = none) :
    evalSteps (.key k :: rest) (.obj fs) = .ok .null := by
  rw [key_on_object]
  simp only [Val.get, h]
  cases rest with
  | nil => rfl
  | cons st rest => exact evalSteps_null st rest

example : evalSteps [.key "zip", .key "code"] (.obj [("name", .str "ann")] : Val Int) = .ok .null :=
  missing_key_null "zip" [.key "code"] _ (by decide)

/-! ## Index and slice steps -/

/-- `[i:…]`: an index within the array selects that element for the remaining dimensions -/
theorem selDim_index_in_range (i : Nat) (ds : List Dim) (xs : List (Val N)) (h : i < xs.length) :
    selDim (.idx i :: ds) (.arr xs) = selDim ds xs[i] := by
  have : ¬ (i ≥ xs.length) := by omega
  simp [selDim, this, goIndex_ok xs h, bind, Except.bind]

theorem flattenKept_zero (v : Val N) : flattenKept 0 v = v := by
  cases v <;> simp [flattenKept, unwind]

/-- with a single dimension nothing is flattened -/
theorem selMany_one (d : Dim) (xs : List (Val N)) : selMany xs [d] = selDim [d] (.arr xs) := by
  have : flattenKept (N := N) ((([d].length : Nat) : Int) - 1) = id := funext flattenKept_zero
  simp only [selMany, this, id_map]

/-- `[i]` -/
theorem index_in_range (i : Nat) (rest : List Step) (xs : List (Val N)) (h : i < xs.length) :
    evalSteps (.dims [.idx i] :: rest) (.arr xs) = evalSteps rest xs[i] := by
  simp only [evalSteps, dimsStep, selMany_one]
  rw [selDim_index_in_range i [] xs h]
  simp [selDim, bind, Except.bind]

example : evalSteps [.dims [.idx 1], .key "name"]
    (.arr [.obj [("name", .str "ann")], .obj [("name", .str "bob")]] : Val Int) = .ok (.str "bob") := by
  rw [index_in_range 1 _ _ (by decide)]; decide

/-- an index outside the array is an error (in `[…]` and in `[keep=>…]`, at any dimension) -/
theorem selDim_index_out_of_range (i : Nat) (ds : List Dim) (xs : List (Val N)) (h : xs.length ≤ i) :
    selDim (.idx i :: ds) (.arr xs) = .error .error := by
  simp [selDim, h]

theorem index_out_of_range_error (i : Nat) (ds : List Dim) (rest : List Step) (xs : List (Val N))
    (h : xs.length ≤ i) :
    evalSteps (.dims (.idx i :: ds) :: rest) (.arr xs) = .error .error ∧
    evalSteps (.keep (.idx i :: ds) :: rest) (.arr xs) = .error .error := by
  simp [evalSteps, dimsStep, keepStep, selMany, selDim_index_out_of_range i ds xs h,
    Functor.map, Except.map, bind, Except.bind]

example : evalSteps [.dims [.each, .idx 2]] (.arr [.arr [.num 1, .num 2, .num 3], .arr [.num 4]] : Val Int)
    = .error .error := by decide

/-- `(m:n)`: with `begin = 0` and `end = len` for the omitted bounds, a range within the array is
    the slice `xs[m:n]`; anything else is an error -/
theorem selDim_range (b e : Option Nat) (ds : List Dim) (xs : List (Val N)) :
    selDim (.range b e :: ds) (.arr xs) =
      if b.getD 0 ≤ e.getD xs.length ∧ e.getD xs.length ≤ xs.length then
        selDim ds (.arr ((xs.drop (b.getD 0)).take (e.getD xs.length - b.getD 0)))
      else .error .error := by
  by_cases h : b.getD 0 ≤ e.getD xs.length ∧ e.getD xs.length ≤ xs.length
  · have h' : ¬ (b.getD 0 > e.getD xs.length ∨ e.getD xs.length > xs.length) := by omega
    simp [selDim, h, h', goSlice_ok xs h, bind, Except.bind]
  · have h' : (b.getD 0 > e.getD xs.length ∨ e.getD xs.length > xs.length) := by omega
    simp [selDim, h, h']

theorem range_is_slice (b e : Option Nat) (rest : List Step) (xs : List (Val N))
    (h : b.getD 0 ≤ e.getD xs.length ∧ e.getD xs.length ≤ xs.length) :
    evalSteps (.dims [.range b e] :: rest) (.arr xs) =
      evalSteps rest (.arr ((xs.drop (b.getD 0)).take (e.getD xs.length - b.getD 0))) := by
  simp only [evalSteps, dimsStep, selMany_one]
  rw [selDim_range]
  simp [selDim, h, bind, Except.bind]

theorem range_out_of_bounds_error (b e : Option Nat) (ds : List Dim) (rest : List Step) (xs : List (Val N))
    (h : ¬ (b.getD 0 ≤ e.getD xs.length ∧ e.getD xs.length ≤ xs.length)) :
    evalSteps (.dims (.range b e :: ds) :: rest) (.arr xs) = .error .error ∧
    evalSteps (.keep (.range b e :: ds) :: rest) (.arr xs) = .error .error := by
  simp [evalSteps, dimsStep, keepStep, selMany, selDim_range, h, Functor.map, Except.map, bind,
    Except.bind]

/-- `(begin:end)` is the whole array, `(begin:n)` a prefix, `(m:end)` a suffix -/
theorem range_begin_end (rest : List Step) (xs : List (Val N)) :
    evalSteps (.dims [.range none none] :: rest) (.arr xs) = evalSteps rest (.arr xs) := by
  rw [range_is_slice none none rest xs (by simp)]; simp

theorem range_prefix (n : Nat) (rest : List Step) (xs : List (Val N)) (h : n ≤ xs.length) :
    evalSteps (.dims [.range none (some n)] :: rest) (.arr xs) = evalSteps rest (.arr (xs.take n)) := by
  rw [range_is_slice none (some n) rest xs (by simpa using h)]; simp

theorem range_suffix (m : Nat) (rest : List Step) (xs : List (Val N)) (h : m ≤ xs.length) :
    evalSteps (.dims [.range (some m) none] :: rest) (.arr xs) = evalSteps rest (.arr (xs.drop m)) := by
  rw [range_is_slice (some m) none rest xs (by simpa using h)]
  simp [List.take_of_length_le]

example : evalSteps [.dims [.range (some 1) none]] (.arr [.num 1, .num 2, .num 3] : Val Int)
    = .ok (.arr [.num 2, .num 3]) := range_suffix 1 [] _ (by decide)

/-! ## `each` iterates and flattens, `keep=>` preserves the nesting -/

/-- textbook flattening: remove `n` levels of array nesting (non-array elements are kept) -/
def flattenN : Nat → List (Val N) → List (Val N)
  | 0, xs => xs
  | n + 1, xs => xs.flatMap fun x => match x with
      | .arr ys => flattenN n ys
      | v => [v]

/-- `Unwind` with a non-negative depth is textbook flattening -/
theorem unwind_eq_flattenN : ∀ (n : Nat) (xs : List (Val N)), unwind (n : Int) xs = flattenN n xs
  | 0, xs => by simp [unwind, flattenN]
  | n + 1, xs => by
    have h0 : ¬ (((n + 1 : Nat) : Int) = 0) := by omega
    have h1 : ((n + 1 : Nat) : Int) - 1 = (n : Int) := by omega
    simp only [unwind, beq_iff_eq, h0, if_false, h1, unwindItems_eq_flatMap, flattenN]
    congr 1
    funext x
    cases x with
    | arr ys => rw [unwindItem_arr, unwind_eq_flattenN n]
    | _ => simp [unwindItem]

/-- `each` applies the remaining dimensions to every element of the current dimension -/
theorem each_iterates (ds : List Dim) (xs : List (Val N)) :
    selDim (.each :: ds) (.arr xs) = .arr <$> mapE (selDim ds) xs := by
  simp [selDim]

/-- `keep=>` hands the selected structure on as it is -/
theorem keep_preserves_nesting (ds : List Dim) (rest : List Step) (xs : List (Val N)) :
    evalSteps (.keep ds :: rest) (.arr xs) = selDim ds (.arr xs) >>= evalSteps rest := by
  simp [evalSteps, keepStep]

/-- … in particular an `each` dimension keeps one entry per element -/
theorem keep_each_length (ds : List Dim) (xs ys : List (Val N))
    (h : evalSteps [.keep (.each :: ds)] (.arr xs) = .ok (.arr ys)) : ys.length = xs.length := by
  simp only [evalSteps, keepStep, each_iterates, bind, Except.bind] at h
  cases hm : mapE (selDim ds) xs with
  | error e => simp [hm, Functor.map, Except.map] at h
  | ok zs =>
    simp only [hm, Functor.map, Except.map, Except.ok.injEq, Val.arr.injEq] at h
    subst h
    exact mapE_ok_length hm

example : ∃ ys, evalSteps [.keep [.each, .idx 0]] (.arr [.arr [.num 1, .num 2], .arr [.num 3]] : Val Int)
    = .ok (.arr ys) ∧ ys.length = 2 := ⟨[.num 1, .num 3], by decide, rfl⟩

/-- without `keep=>`, the result of `n+1` dimensions is the kept structure with `n` levels of
    nesting removed -/
theorem each_flattens (d : Dim) (ds : List Dim) (rest : List Step) (xs : List (Val N)) :
    evalSteps (.dims (d :: ds) :: rest) (.arr xs) =
      selDim (d :: ds) (.arr xs) >>= fun kept =>
        evalSteps rest (match kept with
          | .arr ys => .arr (flattenN ds.length ys)
          | v => v) := by
  have h1 : (((d :: ds).length : Nat) : Int) - 1 = (ds.length : Int) := by simp
  simp only [evalSteps, dimsStep, selMany, h1, bind, Except.bind, Functor.map, Except.map]
  cases selDim (d :: ds) (.arr xs) with
  | error e => rfl
  | ok kept => cases kept <;> simp [flattenKept, unwind_eq_flattenN]

/-- `[…]` is `[keep=>…]` followed by the flattening -/
theorem dims_eq_flattened_keep (d : Dim) (ds : List Dim) (xs : List (Val N)) :
    evalSteps [.dims (d :: ds)] (.arr xs) =
      (fun kept => match kept with
        | .arr ys => .arr (flattenN ds.length ys)
        | v => v) <$> evalSteps [.keep (d :: ds)] (.arr xs) := by
  rw [each_flattens, keep_preserves_nesting]
  cases selDim (d :: ds) (.arr xs) <;> rfl

theorem mapE_ok {α : Type} (xs : List α) : mapE (fun x => (.ok x : R α)) xs = .ok xs := by
  have := mapE_eq_map_of_ok (ε := Err) (f := fun x => (.ok x : R α)) (g := id) (xs := xs) (fun _ _ => rfl)
  simpa using this

/-- the README reading of `[each:each]`: a list of lists becomes their concatenation;
    with `keep=>` it stays as it is -/
theorem each_each_concat (xss : List (List (Val N))) :
    evalSteps [.dims [.each, .each]] (.arr (xss.map .arr)) = .ok (.arr xss.flatten) ∧
    evalSteps [.keep [.each, .each]] (.arr (xss.map .arr)) = .ok (.arr (xss.map .arr)) := by
  have hin : ∀ x ∈ xss.map Val.arr, selDim [Dim.each] x = .ok (id x) := by
    intro x hx
    simp only [List.mem_map] at hx
    obtain ⟨ys, _, rfl⟩ := hx
    simp [selDim, mapE_ok, Functor.map, Except.map]
  have hk : selDim [.each, .each] (.arr (xss.map .arr)) = .ok (.arr (xss.map .arr)) := by
    rw [each_iterates, mapE_eq_map_of_ok hin]; simp [Functor.map, Except.map]
  have hflat : ∀ zss : List (List (Val N)), (zss.map Val.arr).flatMap (fun x => match x with
      | .arr ys => ys
      | v => [v]) = zss.flatten := by
    intro zss
    induction zss with
    | nil => rfl
    | cons ys zss ih => simp [List.flatMap_cons, ih]
  refine ⟨?_, ?_⟩
  · rw [each_flattens, hk]
    simp only [bind, Except.bind, evalSteps, List.length_cons, List.length_nil, flattenN]
    rw [hflat]
  · rw [keep_preserves_nesting, hk]; rfl

example : evalSteps [.dims [.each, .each]] (.arr [.arr [.num 1, .num 2], .arr [.num 3]] : Val Int)
    = .ok (.arr [.num 1, .num 2, .num 3]) := (each_each_concat [[.num 1, .num 2], [.num 3]]).1

/-! ## `::` continues from the previous result -/

def docNestedC09 : Val Int := .obj [("data", .arr [
  .obj [("user", .arr [.str "a", .str "b"])], .obj [("user", .arr [.str "c"])]])]

theorem toList_cc : "::".toList = [':', ':'] := by decide

/-- evaluating `a::b` is evaluating `a`, then `b` on the result (provided `b` parses: `ExecReader`
    parses the whole text before it runs anything, so a malformed `b` is reported even when `a`
    would fail first; `a` must not end in a colon, or the `::` would be found one character early) -/
theorem continue_is_composition (reg : Registry N) (d : Val N) (a b : String)
    (ha : a.toList.getLast? ≠ some ':') (hb : ∃ qs, parseAllL b.toList = .ok qs) :
    execReaderWith reg d (a ++ "::" ++ b) =
      execReaderWith reg d a >>= fun r => execReaderWith reg r b := by
  obtain ⟨qs, hq⟩ := hb
  have hl : (a ++ "::" ++ b).toList = a.toList ++ ':' :: ':' :: b.toList := by
    simp [String.toList_append, toList_cc]
  simp only [execReaderWith, hl, parseAllL, splitCC_append _ _ ha, mapE_append]
  simp only [parseAllL] at hq
  simp only [hq, bind, Except.bind, pure, Except.pure]
  cases mapE parseSelectorL (splitCC a.toList) with
  | error e => rfl
  | ok ps =>
    have := runAll_append reg ps qs d
    simpa [bind, Except.bind] using this

/-- … and if `b` does not parse the whole selector is rejected -/
theorem continue_parse_error (reg : Registry N) (d : Val N) (a b : String)
    (ha : a.toList.getLast? ≠ some ':') (e : Err) (hb : parseAllL b.toList = .error e) :
    ∃ e', execReaderWith reg d (a ++ "::" ++ b) = .error e' := by
  have hl : (a ++ "::" ++ b).toList = a.toList ++ ':' :: ':' :: b.toList := by
    simp [String.toList_append, toList_cc]
  simp only [execReaderWith, hl, parseAllL, splitCC_append _ _ ha, mapE_append]
  simp only [parseAllL] at hb
  simp only [hb, bind, Except.bind]
  cases mapE parseSelectorL (splitCC a.toList) with
  | error e' => exact ⟨e', rfl⟩
  | ok ps => exact ⟨e, rfl⟩

theorem continue_is_composition_builtin (d : Val N) (a b : String)
    (ha : a.toList.getLast? ≠ some ':') (hb : ∃ qs, parseAllL b.toList = .ok qs) :
    execReader d (a ++ "::" ++ b) = execReader d a >>= fun r => execReader r b :=
  continue_is_composition builtins d a b ha hb

example : execReader docNestedC09 "data[each].user::[0]"
    = execReader docNestedC09 "data[each].user" >>= fun r => execReader r "[0]" :=
  continue_is_composition_builtin _ "data[each].user" "[0]" (by decide)
    ⟨[⟨none, [.dims [.idx 0]]⟩], by decide +kernel⟩

/-! ## `{k|type, …}` reshapes and converts -/

/-- on an object the pipe step builds a new object and continues with it -/
theorem pipe_on_object (ps : List (String × String)) (rest : List Step) (fs : Row N) :
    evalSteps (.pipe ps :: rest) (.obj fs) = pipeObj fs ps [] >>= fun c => evalSteps rest (.obj c) := by
  simp [evalSteps, pipeStep]

/-- on an array it is applied (with the rest of the path) to every element -/
theorem pipe_maps_arrays (ps : List (String × String)) (rest : List Step) (xs : List (Val N)) :
    evalSteps (.pipe ps :: rest) (.arr xs) = .arr <$> mapE (evalSteps (.pipe ps :: rest)) xs := by
  simp only [evalSteps, pipeStep, pipeStepList_eq_mapE]
  cases mapE (pipeStep ps (evalSteps rest)) xs <;> rfl

/-- reshape: with distinct keys the new object has exactly the listed keys, in the listed order,
    each holding the converted value of that key in the source object (NULL if it was missing) -/
theorem pipe_reshape (ps : List (String × String)) (rest : List Step) (fs : Row N)
    (hnd : (ps.map (·.1)).Nodup) :
    evalSteps (.pipe ps :: rest) (.obj fs) =
      mapE (pipePair fs) ps >>= fun c => evalSteps rest (.obj c) := by
  rw [pipe_on_object, pipeObj_nodup fs ps [] hnd (by simp [hasKey])]
  cases mapE (pipePair fs) ps <;> simp [Functor.map, Except.map, bind, Except.bind]

/-- no type: the value is copied -/
theorem pipe_conv_none (v : Val N) : pipeConv "" v = .ok v := by simp [pipeConv]

/-- `|string` of an integral number is its decimal text, of a string the string itself -/
theorem pipe_conv_string_int (n : N) (i : Int) (h : Num.toInt? n = some i) :
    pipeConv "string" (.num n) = .ok (.str (toString i)) := by
  have : ¬ ("string" = "") := by decide
  simp [pipeConv, this, pipeString, h]

theorem pipe_conv_string_str (s : String) : pipeConv "string" (.str s : Val N) = .ok (.str s) := by
  have : ¬ ("string" = "") := by decide
  simp [pipeConv, this, pipeString, fmtV]

/-- `|number` of anything but a string is an error; an unknown type name is an error -/
theorem pipe_conv_number_not_string (v : Val N) (h : ∀ s, v ≠ .str s) :
    pipeConv "number" v = .error .error := by
  have h1 : ¬ ("number" = "") := by decide
  have h2 : ¬ ("number" = "string") := by decide
  cases v <;> simp_all [pipeConv, pipeNumber]

theorem pipe_conv_unknown (ty : String) (v : Val N) (h1 : ty ≠ "") (h2 : ty ≠ "string")
    (h3 : ty ≠ "number") : pipeConv ty v = .error .error := by
  simp [pipeConv, h1, h2, h3]

example : evalSteps [.pipe [("id", "string"), ("createdAt", "")]]
    (.obj [("name", .str "ann"), ("id", .num 7)] : Val Int)
    = .ok (.obj [("id", .str "7"), ("createdAt", .null)]) := by
  rw [pipe_reshape _ _ _ (by decide)]; decide

/-! ## quoted keys are literal -/

/-- `'…'` is one key step holding exactly the quoted text: nothing inside it (dots, brackets,
    braces, arrows, blanks) is interpreted -/
theorem quoted_key_literal (k : String) (hk : ∀ c ∈ k.toList, c ≠ '\'') :
    parseSelector ("'" ++ k ++ "'") = .ok ⟨none, [.key k]⟩ := by
  have hl : ("'" ++ k ++ "'").toList = '\'' :: (k.toList ++ ['\'']) := by
    have : "'".toList = ['\''] := by decide
    simp [String.toList_append, this]
  simp only [parseSelector, hl, parseSelectorL_quoted hk, String.ofList_toList]

/-- … so on an object it reads the value stored under that very key -/
theorem quoted_key_reads (k : String) (hk : ∀ c ∈ k.toList, c ≠ '\'' ∧ c ≠ ':') (fs : Row N) :
    execReader (.obj fs) ("'" ++ k ++ "'") = .ok (Val.get fs k) := by
  have hl : ("'" ++ k ++ "'").toList = '\'' :: (k.toList ++ ['\'']) := by
    have : "'".toList = ['\''] := by decide
    simp [String.toList_append, this]
  have hs : splitCC ('\'' :: (k.toList ++ ['\''])) = ['\'' :: (k.toList ++ ['\''])] := by
    apply splitCC_single
    intro c hc
    simp only [List.mem_cons, List.mem_append, List.not_mem_nil, or_false] at hc
    rcases hc with rfl | h | rfl
    · decide
    · exact (hk c h).2
    · decide
  simp only [execReader, execReaderWith, hl, parseAllL, hs, mapE,
    parseSelectorL_quoted (fun c hc => (hk c hc).1), String.ofList_toList]
  simp [bind, Except.bind, pure, Except.pure, runAll, readerExecutor, evalSteps, keyStep]

example : execReader (.obj [("user.name", .str "ann"), ("user", .obj [("name", .str "bob")])] : Val Int)
    "'user.name'" = .ok (.str "ann") :=
  quoted_key_reads "user.name" (by decide) _

/-! ## top level functions -/

/-- `fn=>rest`: the function is applied to the result of the whole rest, i.e. last -/
theorem toplevel_fn_applied_last (reg : Registry N) (f : String) (steps : List Step) (d : Val N) :
    readerExecutor reg ⟨some f, steps⟩ d =
      evalSteps steps d >>= fun r =>
        match reg f with
        | some g => g r
        | none => .error .error := by
  rfl

/-- an unregistered name is an error, reported after the path has been evaluated -/
theorem toplevel_fn_unknown (reg : Registry N) (f : String) (steps : List Step) (d r : Val N)
    (hf : reg f = none) (hr : evalSteps steps d = .ok r) :
    readerExecutor reg ⟨some f, steps⟩ d = .error .error := by
  simp [readerExecutor, hr, hf, bind, Except.bind]

/-- **the function registered NOW is the one applied**: after `RegisterTopLevelFunction(f, g)` — whatever was registered under
    `f` before, and whatever has been evaluated (and cached) before — `f=>steps` is `g` applied to what the steps return -/
theorem toplevel_fn_registered_now (reg : Registry N) (f : String) (g : Val N → R (Val N)) (steps : List Step) (d : Val N) :
    readerExecutor (register reg f g) ⟨some f, steps⟩ d = evalSteps steps d >>= g := by
  simp [readerExecutor, register]

/-- registering a name again replaces the earlier function (the last registration wins) -/
theorem registered_again_overrides (reg : Registry N) (f : String) (g₁ g₂ : Val N → R (Val N)) :
    register (register reg f g₁) f g₂ = register reg f g₂ := by
  funext x; simp only [register]; split <;> rfl

/-- ... and leaves every other name as it was -/
theorem register_other_untouched (reg : Registry N) (f f' : String) (g : Val N → R (Val N)) (h : f' ≠ f) :
    register reg f g f' = reg f' := by
  simp [register, h]

/-- what `ExecReader` keeps per selector TEXT (the parse of every `::` part) is computed without the registry: a text that
    was evaluated under one registry is evaluated under the next one from the same parse, with the next one's functions -/
theorem parse_is_registry_free (reg₁ reg₂ : Registry N) (d : Val N) (s : String) (ps : List Parsed)
    (hp : parseAllL s.toList = .ok ps) :
    execReaderWith reg₁ d s = runAll reg₁ ps d ∧ execReaderWith reg₂ d s = runAll reg₂ ps d := by
  simp [execReaderWith, hp, bind, Except.bind]

/-- the text `name=>rest` parses to the function `name` and the steps of `rest` -/
theorem toplevel_fn_parse (f rest : String) (hf : ∀ c ∈ f.toList, isWord c = true) :
    parseSelector (f ++ "=>" ++ rest) =
      Parsed.mk (some f) <$> mapE parseTok (findAll matchFull 0 rest.toList) := by
  have hl : (f ++ "=>" ++ rest).toList = f.toList ++ '=' :: '>' :: rest.toList := by
    have : "=>".toList = ['=', '>'] := by decide
    simp [String.toList_append, this]
  simp only [parseSelector, hl, parseSelectorL_fn hf, String.ofList_toList]

/-- the same at the level of selector TEXT: `ExecReader(doc, "f=>rest")` (no `::` part) after `RegisterTopLevelFunction(f, g)`
    is `g` applied to what the steps of `rest` return on the document -/
theorem registered_now_text (reg : Registry N) (f rest : String) (g : Val N → R (Val N)) (d : Val N) (steps : List Step)
    (hf : ∀ c ∈ f.toList, isWord c = true)
    (hc : ∀ c ∈ (f ++ "=>" ++ rest).toList, c ≠ ':')
    (hp : mapE parseTok (findAll matchFull 0 rest.toList) = .ok steps) :
    execReaderWith (register reg f g) d (f ++ "=>" ++ rest) = evalSteps steps d >>= g := by
  have hparse := toplevel_fn_parse f rest hf
  simp only [parseSelector] at hparse
  simp only [execReaderWith, parseAllL, splitCC_single hc, mapE, hparse, hp, Functor.map, Except.map, bind, Except.bind,
    pure, Except.pure, runAll]
  have := toplevel_fn_registered_now reg f g steps d
  simp only [bind, Except.bind] at this
  rw [this]
  cases evalSteps steps d with
  | error e => rfl
  | ok v => simp only []; cases hg : g v <;> rfl

example : parseSelector ("mix" ++ "=>" ++ "data[each].x") = .ok ⟨some "mix", [.key "data", .dims [.each], .key "x"]⟩ := by
  rw [toplevel_fn_parse "mix" _ (by decide)]; decide +kernel

/-- `mix` and `distinct` are registered after `init()`, nothing else is -/
theorem builtins_mix : (builtins : Registry N) "mix" = some mix := by simp [builtins]
theorem builtins_distinct : (builtins : Registry N) "distinct" = some distinct := by
  have : ¬ ("distinct" = "mix") := by decide
  simp [builtins, this]

/-- `Mix` flattens, and flattening what is already flat changes nothing -/
theorem mix_flat_idempotent (v w : Val N) (h : mix v = .ok w) : mix w = .ok w := by
  cases v with
  | arr xs =>
    simp only [mix, Except.ok.injEq] at h
    subst h
    simp [mix, mixItems_idem]
  | obj fs =>
    simp only [mix] at h
    split at h
    · cases h
    · rename_i hd
      simp only [Except.ok.injEq] at h
      subst h
      simp [mix, mixFields_flat (mixFields_notObj fs), hd]
  | _ => simp [mix] at h

example : mix (.obj [("a", .obj [("b", .num 1), ("c", .obj [("d", .num 2)])]), ("e", .arr [.num 3])] : Val Int)
    = .ok (.obj [("a_b", .num 1), ("a_c_d", .num 2), ("e", .arr [.num 3])]) := by decide
example : mix (.arr [.num 1, .arr [.num 2, .arr [.num 3]], .obj [("k", .arr [.num 4])]] : Val Int)
    = .ok (.arr [.num 1, .num 2, .num 3, .obj [("k", .arr [.num 4])]]) := by decide

/-- the result of `Mix` on an array holds no array, on an object no object -/
theorem mix_flat (v w : Val N) (h : mix v = .ok w) :
    (∀ ys, w = .arr ys → ∀ y ∈ ys, isArr y = false) ∧
    (∀ fs, w = .obj fs → ∀ p ∈ fs, isObj p.2 = false) := by
  cases v with
  | arr xs =>
    simp only [mix, Except.ok.injEq] at h
    subst h
    refine ⟨?_, by simp⟩
    intro ys hys y hy
    simp only [Val.arr.injEq] at hys
    subst hys
    simp only [mixItems_eq_flatMap, List.mem_flatMap] at hy
    obtain ⟨x, _, hyx⟩ := hy
    exact mixItem_notArr x y hyx
  | obj fs =>
    simp only [mix] at h
    split at h
    · cases h
    · simp only [Except.ok.injEq] at h
      subst h
      refine ⟨by simp, ?_⟩
      intro gs hgs p hp
      simp only [Val.obj.injEq] at hgs
      subst hgs
      exact mixFields_notObj fs p hp
  | _ => simp [mix] at h

/-! ## wrong shapes are errors -/

def isScalar : Val N → Bool
  | .bool _ => true
  | .num _ => true
  | .str _ => true
  | _ => false

/-- a key or pipe step on a scalar, an index/keep step on an object or a scalar: an error -/
theorem wrong_shape_error (rest : List Step) (v : Val N) :
    (isScalar v = true → ∀ k, evalSteps (.key k :: rest) v = .error .error) ∧
    (isScalar v = true → ∀ ps, evalSteps (.pipe ps :: rest) v = .error .error) ∧
    (isScalar v = true ∨ isObj v = true → ∀ ds, evalSteps (.dims ds :: rest) v = .error .error) ∧
    (isScalar v = true ∨ isObj v = true → ∀ ds, evalSteps (.keep ds :: rest) v = .error .error) := by
  cases v <;> simp [isScalar, isObj, evalSteps, keyStep, pipeStep, dimsStep, keepStep]

/-- a further dimension applied to something that is not an array is an error -/
theorem dim_on_non_array (d : Dim) (ds : List Dim) (v : Val N) (h : isArr v = false) :
    selDim (d :: ds) v = .error .error := by
  cases v <;> simp_all [selDim, isArr]

example : evalSteps [.key "a", .key "b"] (.obj [("a", .num 1)] : Val Int) = .error .error := by
  rw [key_on_object]; exact ((wrong_shape_error [] _).1 (by decide) "b")

/-! ## selector text: dotted identifiers -/

/-- identifiers made of `\w` characters, joined by dots, parse to exactly those key steps -/
theorem parse_keys (ks : List String) (h : ∀ k ∈ ks, k.toList ≠ [] ∧ ∀ c ∈ k.toList, isWord c = true) :
    parseSelector (".".intercalate ks) = .ok ⟨none, ks.map .key⟩ := by
  have hd : ".".toList = ['.'] := by decide
  have hl : (".".intercalate ks).toList = dotted (ks.map String.toList) := by
    rw [String.toList_intercalate, hd, intercalate_dot_eq_dotted]
  have hw : ∀ w ∈ ks.map String.toList, WordStr w := by
    intro w hw
    simp only [List.mem_map] at hw
    obtain ⟨k, hk, rfl⟩ := hw
    exact h k hk
  simp only [parseSelector, hl, parseSelectorL_dotted _ hw, List.map_map]
  congr 2
  apply List.map_congr_left
  intro k _
  simp [String.ofList_toList]

/-- … and `ExecReader` on such a path is `readPath` (the reading of dotted column names) -/
theorem exec_keys (ks : List String) (h : ∀ k ∈ ks, k.toList ≠ [] ∧ ∀ c ∈ k.toList, isWord c = true)
    (d : Val N) : execReader d (".".intercalate ks) = readPath ks d := by
  have hd : ".".toList = ['.'] := by decide
  have hl : (".".intercalate ks).toList = dotted (ks.map String.toList) := by
    rw [String.toList_intercalate, hd, intercalate_dot_eq_dotted]
  have hp := parse_keys ks h
  simp only [parseSelector] at hp
  have hs : splitCC (".".intercalate ks).toList = [(".".intercalate ks).toList] := by
    apply splitCC_single
    intro c hc
    rw [hl] at hc
    rcases mem_dotted hc with rfl | ⟨w, hw, hcw⟩
    · decide
    · simp only [List.mem_map] at hw
      obtain ⟨k, hk, rfl⟩ := hw
      exact isWord_ne ((h k hk).2 c hcw) not_word_colon
  simp only [execReader, execReaderWith, parseAllL, hs, mapE, hp]
  simp only [bind, Except.bind, pure, Except.pure, runAll, readerExecutor]
  have := evalSteps_keys ks d
  simp only [execSteps] at this
  rw [this]
  cases readPath ks d <;> rfl

example : execReader (.obj [("users", .arr [.obj [("address", .obj [("zip_code", .num 7)])], .null])] : Val Int)
    "users.address.zip_code" = .ok (.arr [.num 7, .null]) := by
  rw [show "users.address.zip_code" = ".".intercalate ["users", "address", "zip_code"] by decide,
    exec_keys _ (by decide)]
  decide

example : parseSelector "users.address.zip_code" = .ok ⟨none, [.key "users", .key "address", .key "zip_code"]⟩ :=
  parse_keys ["users", "address", "zip_code"] (by decide)

/-! ## print/parse round trip (stretch)

  `printSel` writes an AST as selector text (keys quoted, steps separated by dots, dimensions by
  colons, pipe items by commas); `Parsed.WF` says the AST is printable: keys without a quote,
  indices and bounds within `int64`, pipe keys non-empty `\w+`, pipe types and the function name
  `\w*`. -/

/-- every well-formed selector AST is read back from its printed text -/
theorem print_parse_roundtrip (p : Parsed) (hp : p.WF) :
    parseSelector (String.ofList (printSel p)) = .ok p := by
  simp only [parseSelector, String.toList_ofList]
  exact parse_print p hp

example : String.ofList (printSel ⟨some "mix", [.key "data", .dims [.each, .idx 0, .range none (some 12)],
    .keep [.idx 3], .pipe [("id", "string"), ("createdAt", "")]]⟩)
    = "mix=>'data'.[each:0:(begin:12)].[keep=>3].{id|string,createdAt}" := by decide +kernel

example : (⟨some "mix", [.key "user.name", .dims [.each, .range none (some 12)],
    .pipe [("id", "string"), ("createdAt", "")]]⟩ : Parsed).WF := by
  refine ⟨fun f hf => by cases hf; decide, ?_⟩
  intro s hs
  simp only [List.mem_cons, List.not_mem_nil, or_false] at hs
  rcases hs with rfl | rfl | rfl
  · simp only [Step.WF]; decide
  · simp only [Step.WF]
    intro d hd
    simp only [List.mem_cons, List.not_mem_nil, or_false] at hd
    rcases hd with rfl | rfl
    · trivial
    · exact ⟨by simp, by simp [maxInt64]⟩
  · simp only [Step.WF]; decide

/-! ## The README's examples, evaluated by the kernel on small documents (`N := Int`)

  (`decide +kernel`: the default `decide` first evaluates the instance with the elaborator's
  `whnf`, which is far slower than the kernel on the tokenizer; no axiom is involved.) -/

section examples
abbrev V := Val Int

def docUsers : V := .obj [("users", .arr [
  .obj [("name", .str "ann"), ("id", .num 1)],
  .obj [("name", .str "bob"), ("id", .num 2)]])]

def docGrid : V := .obj [("data", .arr [
  .arr [.arr [.num 1, .num 2], .arr [.num 3, .num 4]],
  .arr [.arr [.num 5, .num 6]]])]

def docTwelve : V := .obj [("users", .arr [.num 0, .num 1, .num 2, .num 3, .num 4, .num 5, .num 6,
  .num 7, .num 8, .num 9, .num 10, .num 11])]

def docUser : V := .obj [("user", .obj [("id", .num 42), ("name", .str "ann")]),
  ("user.name", .obj [("key", .str "literal")])]

def docNested : V := .obj [("data", .arr [
  .obj [("user", .arr [.str "a", .str "b"]), ("x", .arr [.obj [("y", .arr [.num 1, .num 2])], .obj [("y", .arr [.num 3])]])],
  .obj [("user", .arr [.str "c"]), ("x", .arr [.obj [("y", .arr [.num 4])]])]])]

-- Get an Array Element
example : parseSelector "users[0].name" = .ok ⟨none, [.key "users", .dims [.idx 0], .key "name"]⟩ := by
  decide +kernel
example : execReader docUsers "users[0].name" = .ok (.str "ann") := by decide +kernel
example : execReader docUsers "users.name" = .ok (.arr [.str "ann", .str "bob"]) := by decide +kernel
example : execReader docUsers "users[2].name" = .error .error := by decide +kernel
-- Multi-dimensional Arrays
example : parseSelector "data[each:each:0]" = .ok ⟨none, [.key "data", .dims [.each, .each, .idx 0]]⟩ := by
  decide +kernel
example : execReader docGrid "data[each:each:0]" = .ok (.arr [.num 1, .num 3, .num 5]) := by
  decide +kernel
-- Keep Array Structure
example : parseSelector "data[keep=>0:1]" = .ok ⟨none, [.key "data", .keep [.idx 0, .idx 1]]⟩ := by
  decide +kernel
example : execReader docGrid "data[keep=>0:1]" = .ok (.arr [.num 3, .num 4]) := by decide +kernel
example : execReader docGrid "data[keep=>each:each:0]"
    = .ok (.arr [.arr [.num 1, .num 3], .arr [.num 5]]) := by decide +kernel
-- Array Slices
example : parseSelector "users[(5:10)]" = .ok ⟨none, [.key "users", .dims [.range (some 5) (some 10)]]⟩ := by
  decide +kernel
example : execReader docTwelve "users[(5:10)]"
    = .ok (.arr [.num 5, .num 6, .num 7, .num 8, .num 9]) := by decide +kernel
example : execReader docTwelve "users[(10:end)]" = .ok (.arr [.num 10, .num 11]) := by decide +kernel
example : execReader docUsers "users[(5:10)]" = .error .error := by decide +kernel
-- Reshape Data
example : parseSelector "user{id|string, createdAt}"
    = .ok ⟨none, [.key "user", .pipe [("id", "string"), ("createdAt", "")]]⟩ := by decide +kernel
example : execReader docUser "user{id|string, createdAt}"
    = .ok (.obj [("id", .str "42"), ("createdAt", .null)]) := by decide +kernel
example : execReader docUser "user{id|number}" = .error .error := by decide +kernel
-- Escape Keys
example : parseSelector "'user.name'.key" = .ok ⟨none, [.key "user.name", .key "key"]⟩ := by
  decide +kernel
example : execReader docUser "'user.name'.key" = .ok (.str "literal") := by decide +kernel
example : execReader docUser "user.name.key" = .error .error := by decide +kernel
-- Continue With
example : execReader docNested "data[each].user"
    = .ok (.arr [.arr [.str "a", .str "b"], .arr [.str "c"]]) := by decide +kernel
example : execReader docNested "data[each].user::[0]" = .ok (.arr [.str "a", .str "b"]) := by
  decide +kernel
-- Top Level Functions
example : parseSelector "mix=>data[each].x[each].y"
    = .ok ⟨some "mix", [.key "data", .dims [.each], .key "x", .dims [.each], .key "y"]⟩ := by
  decide +kernel
example : execReader docNested "data[each].x[each].y"
    = .ok (.arr [.arr [.arr [.num 1, .num 2], .arr [.num 3]], .arr [.arr [.num 4]]]) := by
  decide +kernel
example : execReader docNested "mix=>data[each].x[each].y"
    = .ok (.arr [.num 1, .num 2, .num 3, .num 4]) := by decide +kernel
example : execReader docNested "nosuchfn=>data" = .error .error := by decide +kernel
example : execReader docUsers "distinct=>users[each].name::[(begin:1)]" = .ok (.arr [.str "ann"]) := by
  decide +kernel
-- register, evaluate, register AGAIN, evaluate the same text: the second evaluation applies the second function
example : execReaderWith (register builtins "vf_top" (fun v => .ok (.arr [v]))) docNested "vf_top=>data[each].user"
    = .ok (.arr [.arr [.arr [.str "a", .str "b"], .arr [.str "c"]]]) := by decide +kernel
example : execReaderWith (register (register builtins "vf_top" (fun v => .ok (.arr [v]))) "vf_top" (fun _ => .ok (.num 7)))
    docNested "vf_top=>data[each].user" = .ok (.num 7) := by decide +kernel
example : execReaderWith (register builtins "mix" (fun _ => .ok .null)) docNested "mix=>data[each].x[each].y" = .ok .null := by
  decide +kernel
-- a missing key is NULL, and stays NULL
example : execReader docUsers "users[0].address.zip" = .ok .null := by decide +kernel
end examples

end Genql.C09
