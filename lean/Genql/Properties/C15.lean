/-
  Property C15 — "The comparison used by WHERE, ORDER BY, IN and joins returns only -1, 0 or 1 and
  is a coherent order: for numbers of any Go numeric type (within the exactly-representable range)
  it agrees with the mathematical order of the values - 1 < 1.5 whether 1 arrives as int or
  float64, and -1 < uint(1) - for two strings with byte-wise lexicographic order, and for a number
  against a string with the order of the number's decimal text against that string.  It is
  reflexive, antisymmetric (cmp(a,b) = -cmp(b,a)) and, within each kind, transitive."

  Model: `Genql.Cmp.compareGo` (Genql/Model/Compare.lean), a branch-for-branch transcription of
  `Compare`/`compare[T]`/`Cmp`/`integer`/`As` of /repo/compare/compare.go.  `compareGo a b = none`
  only when a `%v` text the Go code needs is outside the model (`fmtGo = none`).

  Domain predicates (all decidable):
  * `IsNum a`   — `a` is one of the twelve numeric kinds;
  * `Exact a`   — the conversion `float64(a)` is exact: `|v| ≤ 2^53` for an integer, always for a
                  float (a `float32`/`float64` value *is* a dyadic rational);
  * `Fmtable a` — the model predicts `fmt.Sprintf("%v", a)`.

  Theorems
  * `cmp_range`          every defined result is -1, 0 or 1;
  * `cmp_defined_iff`    exactly when the result is defined;
  * `cmp_num_math`       two exact numbers of any kinds: `sign (val a - val b)`;
  * `cmp_num_rat`        the same over core `Rat`: three-way comparison of `m / 2^e` values;
  * `cmp_int_math`       two integers of any kinds and any magnitude: `sign (v - w)`;
  * `cmp_str_lex`        two strings: lexicographic order;
  * `cmp_num_str_text`, `cmp_str_num_text`   number against string: `%v` text against the string;
  * `cmp_other_text`     every remaining pair: `%v` text against `%v` text;
  * `cmp_refl`, `cmp_antisymm` (all values, all kind mixes);
  * `cmp_trans_num`, `cmp_trans_int`, `cmp_trans_str` (+ `_lt`, `_eq`, `_ge` corollaries);
  * counter-examples showing the hypotheses cannot be dropped: outside the exact range the order
    of numbers is not transitive, and across kinds (number/string) it is not transitive either.
-/
import Genql.Proofs.Compare
namespace Genql.C15
open Genql Genql.Cmp

/-! ## Specification vocabulary -/

/-- the exact mathematical value `m / 2^e` of a number (0 for a non-number) -/
def val : GoVal → Cmp.Dyadic
  | .int _ v => ⟨v, 0⟩
  | .f32 d => d
  | .f64 d => d
  | _ => ⟨0, 0⟩

/-- `sign (x - y)` for `x = x.m / 2^x.e`, `y = y.m / 2^y.e`, by cross-multiplication:
    `sign (x.m * 2^y.e - y.m * 2^x.e)` (the common denominator `2^(x.e + y.e)` is positive). -/
def signSub (x y : Cmp.Dyadic) : Int := Int.sign (x.m * Int.ofNat (2 ^ y.e) - y.m * Int.ofNat (2 ^ x.e))

/-- mathematical order of two dyadic rationals (cross-multiplied) -/
def vlt (x y : Cmp.Dyadic) : Prop := x.m * Int.ofNat (2 ^ y.e) < y.m * Int.ofNat (2 ^ x.e)

abbrev IsNum (a : GoVal) : Prop := a.isNum = true

/-- `float64(a)` is exact -/
def Exact : GoVal → Prop
  | .int _ v => v.natAbs ≤ 2 ^ 53
  | _ => True

instance : DecidablePred Exact := fun a => by cases a <;> unfold Exact <;> infer_instance

/-- the model predicts the `%v` text -/
abbrev Fmtable (a : GoVal) : Prop := (fmtGo a).isSome = true

/-- the textbook three-way comparison of two strings -/
def lex3 (a b : String) : Int := if a < b then -1 else if a = b then 0 else 1

theorem signSub_eq_dsign (x y : Cmp.Dyadic) : signSub x y = dsign x y := rfl

theorem asF64_exact {a : GoVal} (ha : IsNum a) (ea : Exact a) : asF64 a = val a := by
  cases a with
  | int k v => exact intToF64_exact ea
  | f32 d => rfl
  | f64 d => rfl
  | str _ => simp [IsNum, GoVal.isNum] at ha
  | bool _ => simp [IsNum, GoVal.isNum] at ha
  | nil => simp [IsNum, GoVal.isNum] at ha

theorem lex3_eq_strCompare (a b : String) : lex3 a b = strCompare a b := by
  unfold lex3
  rcases strCompare_range a b with h | h | h
  · rw [h, if_pos (strCompare_eq_neg_one.mp h)]
  · have := strCompare_eq_zero.mp h; subst this
    rw [h]; simp [String.lt_irrefl]
  · have hlt := strCompare_eq_one.mp h
    have hne : a ≠ b := fun e => by subst e; exact String.lt_irrefl _ hlt
    rw [h, if_neg (String.lt_asymm hlt), if_neg hne]

/-! ## Range -/

/-- C15, "returns only -1, 0 or 1" — for ALL values. -/
theorem cmp_range {a b : GoVal} {c : Int} (h : compareGo a b = some c) :
    c = -1 ∨ c = 0 ∨ c = 1 := by
  by_cases hn : a.isNum = true ∧ b.isNum = true
  · rw [compareGo_num_num hn.1 hn.2] at h
    injection h with h; rw [← h]; exact cmpNum_range a b
  · have : a.isNum = false ∨ b.isNum = false := by
      cases ha : a.isNum <;> cases hb : b.isNum <;> simp_all
    rw [compareGo_text this] at h
    exact cmpText_range h

example : compareGo (.int .int8 (-3)) (.f32 ⟨5, 2⟩) = some (-1) := by decide

/-- The result is defined exactly when both operands are numbers or both `%v` texts are in the
    model (the text of a string, bool, nil and integer always is). -/
theorem cmp_defined_iff (a b : GoVal) :
    (compareGo a b).isSome = true ↔ (IsNum a ∧ IsNum b) ∨ (Fmtable a ∧ Fmtable b) := by
  by_cases hn : a.isNum = true ∧ b.isNum = true
  · rw [compareGo_num_num hn.1 hn.2]; exact ⟨fun _ => .inl hn, fun _ => rfl⟩
  · have : a.isNum = false ∨ b.isNum = false := by
      cases ha : a.isNum <;> cases hb : b.isNum <;> simp_all
    rw [compareGo_text this]
    unfold cmpText Fmtable
    cases fmtGo a <;> cases fmtGo b <;> simp [hn]

/-! ## Numbers: the mathematical order -/

/-- C15, numbers of any two Go numeric kinds within the exactly-representable range are ordered
    by their mathematical values: the result is `sign (val a - val b)`. -/
theorem cmp_num_math {a b : GoVal} (ha : IsNum a) (hb : IsNum b) (ea : Exact a) (eb : Exact b) :
    compareGo a b = some (signSub (val a) (val b)) := by
  rw [compareGo_num_num ha hb, signSub_eq_dsign]
  congr 1
  by_cases hi : (∃ k v, a = .int k v) ∧ (∃ k' w, b = .int k' w)
  · obtain ⟨⟨k, v, rfl⟩, ⟨k', w, rfl⟩⟩ := hi
    rw [cmpNum_int]
    show (v - w).sign = Int.sign (v * 1 - w * 1)
    rw [Int.mul_one, Int.mul_one]
  · have : integer a = none ∨ integer b = none := by
      cases a <;> cases b <;> simp [integer] at hi ⊢
    rw [cmpNum_float this, asF64_exact ha ea, asF64_exact hb eb]

example : IsNum (.int .uint8 200) ∧ IsNum (.f32 ⟨-7, 3⟩) ∧ Exact (.int .uint8 200) ∧
    Exact (.f32 ⟨-7, 3⟩) ∧ compareGo (.int .uint8 200) (.f32 ⟨-7, 3⟩) = some 1 := by decide

/-- Two integers of any kinds and ANY magnitude (no exactness hypothesis: the sign-and-magnitude
    branch of `Cmp` never converts to `float64`). -/
theorem cmp_int_math (k k' : IntKind) (v w : Int) :
    compareGo (.int k v) (.int k' w) = some (Int.sign (v - w)) := by
  rw [compareGo_num_num rfl rfl, cmpNum_int]

example : compareGo (.int .int64 (-9223372036854775808)) (.int .uint64 18446744073709551615)
    = some (-1) := by decide
example : compareGo (.int .uint64 18446744073709551615) (.int .int64 9223372036854775807)
    = some 1 := by decide

/-- readable corollaries of `cmp_num_math` -/
theorem cmp_num_lt_iff {a b : GoVal} (ha : IsNum a) (hb : IsNum b) (ea : Exact a) (eb : Exact b) :
    compareGo a b = some (-1) ↔ vlt (val a) (val b) := by
  rw [cmp_num_math ha hb ea eb, signSub_eq_dsign, Option.some.injEq]
  exact dsign_eq_neg_one
theorem cmp_num_gt_iff {a b : GoVal} (ha : IsNum a) (hb : IsNum b) (ea : Exact a) (eb : Exact b) :
    compareGo a b = some 1 ↔ vlt (val b) (val a) := by
  rw [cmp_num_math ha hb ea eb, signSub_eq_dsign, Option.some.injEq]
  exact dsign_eq_one
theorem cmp_num_eq_iff {a b : GoVal} (ha : IsNum a) (hb : IsNum b) (ea : Exact a) (eb : Exact b) :
    compareGo a b = some 0 ↔
      (val a).m * Int.ofNat (2 ^ (val b).e) = (val b).m * Int.ofNat (2 ^ (val a).e) := by
  rw [cmp_num_math ha hb ea eb, signSub_eq_dsign, Option.some.injEq]
  exact dsign_eq_zero

/-- the result does not depend on the Go types the two numbers arrive in -/
theorem cmp_num_kind_irrelevant {a b a' b' : GoVal} (ha : IsNum a) (hb : IsNum b) (ea : Exact a)
    (eb : Exact b) (ha' : IsNum a') (hb' : IsNum b') (ea' : Exact a') (eb' : Exact b')
    (hva : val a = val a') (hvb : val b = val b') : compareGo a b = compareGo a' b' := by
  rw [cmp_num_math ha hb ea eb, cmp_num_math ha' hb' ea' eb', hva, hvb]

/-! ### The same statement read in core `Rat` -/

/-- the value as a rational number, `m / 2^e` -/
def toRat (d : Cmp.Dyadic) : Rat := (d.m : Rat) / ((2 ^ d.e : Nat) : Rat)

theorem div_lt_div_iff_cross (a b : Int) (P Q : Nat) (hP : 0 < P) (hQ : 0 < Q) :
    (a : Rat) / (P : Rat) < (b : Rat) / (Q : Rat) ↔ a * Int.ofNat Q < b * Int.ofNat P := by
  have hP' : (0 : Rat) < (P : Rat) := Rat.natCast_pos.mpr hP
  have hQ' : (0 : Rat) < (Q : Rat) := Rat.natCast_pos.mpr hQ
  rw [Rat.lt_div_iff hQ']
  have e : (a : Rat) / (P : Rat) * (Q : Rat) = ((a : Rat) * (Q : Rat)) / (P : Rat) := by
    rw [Rat.div_def, Rat.div_def, Rat.mul_assoc, Rat.mul_comm (P : Rat)⁻¹, ← Rat.mul_assoc]
  rw [e, Rat.div_lt_iff hP', ← Rat.intCast_natCast Q, ← Rat.intCast_natCast P,
    ← Rat.intCast_mul, ← Rat.intCast_mul, Rat.intCast_lt_intCast]
  rfl

/-- the cross-multiplied order is the order of the rationals -/
theorem vlt_iff_toRat_lt (x y : Cmp.Dyadic) : vlt x y ↔ toRat x < toRat y :=
  (div_lt_div_iff_cross x.m y.m (2 ^ x.e) (2 ^ y.e) (Nat.two_pow_pos _) (Nat.two_pow_pos _)).symm

/-- C15 for numbers, stated over `Rat`: the result is the three-way comparison of the two
    rational values. -/
theorem cmp_num_rat {a b : GoVal} (ha : IsNum a) (hb : IsNum b) (ea : Exact a) (eb : Exact b) :
    compareGo a b = some (if toRat (val a) < toRat (val b) then -1
      else if toRat (val a) = toRat (val b) then 0 else 1) := by
  rw [cmp_num_math ha hb ea eb, signSub_eq_dsign]
  congr 1
  generalize val a = x
  generalize val b = y
  have lt_iff : ∀ u v : Cmp.Dyadic, u.Lt v ↔ toRat u < toRat v := vlt_iff_toRat_lt
  rcases dsign_range x y with h | h | h
  · rw [h, if_pos ((lt_iff x y).mp (dsign_eq_neg_one.mp h))]
  · have hxy : ¬ toRat x < toRat y := fun c => by
      have := (lt_iff x y).mpr c
      have e := dsign_eq_zero.mp h
      unfold Cmp.Dyadic.Lt at this; unfold Cmp.Dyadic.Eqv at e; omega
    have hyx : ¬ toRat y < toRat x := fun c => by
      have := (lt_iff y x).mpr c
      have e := dsign_eq_zero.mp h
      unfold Cmp.Dyadic.Lt at this; unfold Cmp.Dyadic.Eqv at e; omega
    have e : toRat x = toRat y := Rat.le_antisymm (Rat.not_lt.mp hyx) (Rat.not_lt.mp hxy)
    rw [h, if_neg hxy, if_pos e]
  · have hyx : toRat y < toRat x := (lt_iff y x).mp (dsign_eq_one.mp h)
    have hxy : ¬ toRat x < toRat y := Rat.not_lt.mpr (Rat.le_of_lt hyx)
    have hne : toRat x ≠ toRat y := fun e => by rw [e] at hyx; exact Rat.lt_irrefl hyx
    rw [h, if_neg hxy, if_neg hne]

/-! The witnesses named in the property text. -/
example : compareGo (.int .int 1) (.f64 ⟨3, 1⟩) = some (-1) := by decide
example : compareGo (.f64 ⟨3, 1⟩) (.int .int 1) = some 1 := by decide
example : compareGo (.f64 ⟨1, 0⟩) (.f64 ⟨3, 1⟩) = some (-1) := by decide
example : compareGo (.int .int (-1)) (.int .uint 1) = some (-1) := by decide
example : compareGo (.int .uint 1) (.int .int (-1)) = some 1 := by decide

/-! ## Strings -/

/-- C15, two strings are ordered lexicographically (`strings.Compare`). -/
theorem cmp_str_lex (a b : String) :
    compareGo (.str a) (.str b) = some (if a < b then -1 else if a = b then 0 else 1) := by
  rw [compareGo_str_any]
  show some (strCompare a b) = some (lex3 a b)
  rw [lex3_eq_strCompare]

example : compareGo (.str "abc") (.str "abd") = some (-1) := by decide
example : compareGo (.str "b") (.str "abd") = some 1 := by decide

/-! ## Number against string, and the remaining pairs -/

/-- C15, a number against a string: the number's `%v` text against the string. -/
theorem cmp_num_str_text {a : GoVal} (ha : IsNum a) {t : String} (ht : fmtGo a = some t)
    (s : String) : compareGo a (.str s) = some (lex3 t s) := by
  rw [compareGo_num_str ha, ht, lex3_eq_strCompare]; rfl

/-- … in the other argument order. -/
theorem cmp_str_num_text {a : GoVal} {t : String} (ht : fmtGo a = some t) (s : String) :
    compareGo (.str s) a = some (lex3 s t) := by
  rw [compareGo_str_any, ht, lex3_eq_strCompare]; rfl

example : fmtGo (.int .int 10) = some "10" ∧
    compareGo (.int .int 10) (.str "9") = some (-1) ∧
    compareGo (.str "9") (.int .int 10) = some 1 := by decide
example : fmtGo (.f64 ⟨3, 1⟩) = some "1.5" ∧
    compareGo (.f64 ⟨3, 1⟩) (.str "1.5") = some 0 := by decide
example : fmtGo (.f64 ⟨1000000, 0⟩) = some "1e+06" ∧
    compareGo (.f64 ⟨1000000, 0⟩) (.str "1000000") = some 1 := by decide

/-- Every pair that is not number/number: the two `%v` texts are compared. -/
theorem cmp_other_text {a b : GoVal} (h : ¬ (IsNum a ∧ IsNum b)) {s t : String}
    (hs : fmtGo a = some s) (ht : fmtGo b = some t) : compareGo a b = some (lex3 s t) := by
  have : a.isNum = false ∨ b.isNum = false := by
    cases ha : a.isNum <;> cases hb : b.isNum <;> simp_all [IsNum]
  rw [compareGo_text this, cmpText, hs, ht, lex3_eq_strCompare]

example : compareGo (.bool true) .nil = some 1 := by decide

/-! ## Reflexivity and antisymmetry (all values) -/

/-- C15, reflexive.  (A float whose text is out of the model is still equal to itself.) -/
theorem cmp_refl {a : GoVal} (h : IsNum a ∨ Fmtable a) : compareGo a a = some 0 := by
  by_cases ha : a.isNum = true
  · rw [compareGo_num_num ha ha, cmpNum_self]
  · have hf : Fmtable a := h.resolve_left ha
    rw [compareGo_text (.inl (by simpa using ha))]
    unfold cmpText
    cases hfa : fmtGo a with
    | none => simp [Fmtable, hfa] at hf
    | some s => simp [strCompare_self]

/-- whenever `compareGo a a` is defined it is 0 -/
theorem cmp_refl' {a : GoVal} {c : Int} (h : compareGo a a = some c) : c = 0 := by
  have hd : (compareGo a a).isSome = true := by rw [h]; rfl
  have := (cmp_defined_iff a a).mp hd
  rw [cmp_refl (this.imp And.left And.left)] at h
  injection h with h; exact h.symm

example : compareGo (.f64 ⟨1, 60⟩) (.f64 ⟨1, 60⟩) = some 0 := by decide

/-- C15, antisymmetric: `cmp(b, a) = -cmp(a, b)` for ALL values of the model, whatever mix of
    kinds (in particular `compareGo b a` is defined whenever `compareGo a b` is). -/
theorem cmp_antisymm {a b : GoVal} {c : Int} (h : compareGo a b = some c) :
    compareGo b a = some (-c) := by
  by_cases hn : a.isNum = true ∧ b.isNum = true
  · rw [compareGo_num_num hn.1 hn.2] at h
    rw [compareGo_num_num hn.2 hn.1, cmpNum_antisymm a b]
    injection h with h; rw [h]
  · have : a.isNum = false ∨ b.isNum = false := by
      cases ha : a.isNum <;> cases hb : b.isNum <;> simp_all
    rw [compareGo_text this] at h
    rw [compareGo_text this.symm]
    exact cmpText_antisymm h

example : compareGo (.int .int 10) (.str "9") = some (-1) ∧
    compareGo (.str "9") (.int .int 10) = some 1 := by decide
example : compareGo (.bool false) (.f64 ⟨3, 1⟩) = some 1 ∧
    compareGo (.f64 ⟨3, 1⟩) (.bool false) = some (-1) := by decide

/-! ## Transitivity within a kind -/

/-- C15, transitive on numbers (any mix of the twelve numeric kinds, exact range): from
    `a ≤ b` (`x ≤ 0`) and `b ≤ c` (`y ≤ 0`) the comparison of `a` with `c` is `min x y`, i.e.
    `-1` as soon as one of the two steps is strict and `0` when both are equalities. -/
theorem cmp_trans_num {a b c : GoVal} (ha : IsNum a) (hb : IsNum b) (hc : IsNum c)
    (ea : Exact a) (eb : Exact b) (ec : Exact c) {x y : Int}
    (h1 : compareGo a b = some x) (h2 : compareGo b c = some y) (hx : x ≤ 0) (hy : y ≤ 0) :
    compareGo a c = some (min x y) := by
  rw [cmp_num_math ha hb ea eb, signSub_eq_dsign] at h1
  rw [cmp_num_math hb hc eb ec, signSub_eq_dsign] at h2
  injection h1 with h1; injection h2 with h2
  subst h1; subst h2
  rw [cmp_num_math ha hc ea ec, signSub_eq_dsign, dsign_trans hx hy]

theorem cmp_trans_num_lt {a b c : GoVal} (ha : IsNum a) (hb : IsNum b) (hc : IsNum c)
    (ea : Exact a) (eb : Exact b) (ec : Exact c)
    (h1 : compareGo a b = some (-1)) (h2 : compareGo b c = some (-1)) :
    compareGo a c = some (-1) :=
  cmp_trans_num ha hb hc ea eb ec h1 h2 (by decide) (by decide)

theorem cmp_trans_num_eq {a b c : GoVal} (ha : IsNum a) (hb : IsNum b) (hc : IsNum c)
    (ea : Exact a) (eb : Exact b) (ec : Exact c)
    (h1 : compareGo a b = some 0) (h2 : compareGo b c = some 0) :
    compareGo a c = some 0 :=
  cmp_trans_num ha hb hc ea eb ec h1 h2 (by decide) (by decide)

/-- the descending direction, obtained from antisymmetry -/
theorem cmp_trans_num_ge {a b c : GoVal} (ha : IsNum a) (hb : IsNum b) (hc : IsNum c)
    (ea : Exact a) (eb : Exact b) (ec : Exact c) {x y : Int}
    (h1 : compareGo a b = some x) (h2 : compareGo b c = some y) (hx : 0 ≤ x) (hy : 0 ≤ y) :
    compareGo a c = some (max x y) := by
  have h1' := cmp_antisymm h1
  have h2' := cmp_antisymm h2
  have := cmp_antisymm
    (cmp_trans_num hc hb ha ec eb ea h2' h1' (by omega) (by omega))
  rw [this]; congr 1; omega

example : compareGo (.int .int8 1) (.f32 ⟨3, 1⟩) = some (-1) ∧
    compareGo (.f32 ⟨3, 1⟩) (.int .uint64 2) = some (-1) ∧
    compareGo (.int .int8 1) (.int .uint64 2) = some (-1) := by decide

/-- Integers only: transitive for every magnitude (no exactness hypothesis). -/
theorem cmp_trans_int {k₁ k₂ k₃ : IntKind} {u v w : Int} {x y : Int}
    (h1 : compareGo (.int k₁ u) (.int k₂ v) = some x)
    (h2 : compareGo (.int k₂ v) (.int k₃ w) = some y) (hx : x ≤ 0) (hy : y ≤ 0) :
    compareGo (.int k₁ u) (.int k₃ w) = some (min x y) := by
  rw [cmp_int_math] at h1 h2 ⊢
  injection h1 with h1; injection h2 with h2
  subst h1; subst h2
  have e : ∀ p q : Int, Int.sign (p - q) = dsign ⟨p, 0⟩ ⟨q, 0⟩ := by
    intro p q
    show (p - q).sign = Int.sign (p * 1 - q * 1)
    rw [Int.mul_one, Int.mul_one]
  rw [e] at hx hy ⊢
  rw [e, e]
  exact congrArg some (dsign_trans hx hy)

/-- The exactness hypothesis of `cmp_trans_num` cannot be dropped: `float64(2^53 + 1) = 2^53`, so
    Go answers `2^53 < 2^53 + 1`, `2^53 + 1 == 2^53.0` and `2^53 == 2^53.0`. -/
example :
    compareGo (.int .int 9007199254740992) (.int .int 9007199254740993) = some (-1) ∧
    compareGo (.int .int 9007199254740993) (.f64 ⟨9007199254740992, 0⟩) = some 0 ∧
    compareGo (.int .int 9007199254740992) (.f64 ⟨9007199254740992, 0⟩) = some 0 := by decide

/-- C15, transitive on strings. -/
theorem cmp_trans_str {a b c : String} {x y : Int}
    (h1 : compareGo (.str a) (.str b) = some x) (h2 : compareGo (.str b) (.str c) = some y)
    (hx : x ≤ 0) (hy : y ≤ 0) : compareGo (.str a) (.str c) = some (min x y) := by
  rw [compareGo_str_any] at h1 h2 ⊢
  have f : ∀ s, fmtGo (.str s) = some s := fun _ => rfl
  rw [f] at h1 h2 ⊢
  simp only [Option.map_some, Option.some.injEq] at h1 h2 ⊢
  subst h1; subst h2
  exact strCompare_trans hx hy

theorem cmp_trans_str_lt {a b c : String}
    (h1 : compareGo (.str a) (.str b) = some (-1)) (h2 : compareGo (.str b) (.str c) = some (-1)) :
    compareGo (.str a) (.str c) = some (-1) :=
  cmp_trans_str h1 h2 (by decide) (by decide)

example : compareGo (.str "10") (.str "9") = some (-1) ∧
    compareGo (.str "9") (.str "a") = some (-1) ∧
    compareGo (.str "10") (.str "a") = some (-1) := by decide

/-- Across kinds the comparison is NOT transitive (which is why the property says "within each
    kind"): `9 < 10` as numbers, `10 < "9"` as texts, yet `9 == "9"`. -/
example :
    compareGo (.int .int 9) (.int .int 10) = some (-1) ∧
    compareGo (.int .int 10) (.str "9") = some (-1) ∧
    compareGo (.int .int 9) (.str "9") = some 0 := by decide

/-! ## The protocol decoder -/

/-- the decoder only produces Go values: every decoded integer lies in the range of its type -/
theorem parseGoVal_wf {t v : String} {a : GoVal} (h : parseGoVal t v = some a) : a.WF = true := by
  unfold parseGoVal at h
  split at h
  · split at h
    · split at h
      · injection h with h; subst h; simpa [GoVal.WF]
      · cases h
    · cases h
  · cases a with
    | int k v =>
      repeat' split at h
      all_goals simp [Option.map] at h
      all_goals (split at h <;> simp at h)
    | _ => rfl

/-! decoder witnesses -/
example : parseGoVal "float64" "4609434218613702656" = some (.f64 ⟨3, 1⟩) := by decide
example : parseGoVal "float32" "1069547520" = some (.f32 ⟨3, 1⟩) := by decide
example : parseGoVal "uint8" "256" = none := by decide
example : parseGoVal "int8" "-128" = some (.int .int8 (-128)) := by decide
example : parseGoVal "float64" "9218868437227405312" = none := by decide   -- +Inf

end Genql.C15
