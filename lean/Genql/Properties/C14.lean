/-
  C14 — ASYNC / SPIN / SPINASYNC / ONCE change when a function runs, not what the query returns.
  All statements quantify over EVERY schedule (interleaving of the main goroutine and the spawned
  goroutines), every number of rows, every select list and every pure user function.
-/
import Genql.Proofs.AsyncInv
import Genql.Proofs.AsyncTrace

namespace Genql.C14
open Genql.Async
variable {A V : Type}

/-- `Exec` has returned the rows (a *complete* schedule). -/
def Complete (q : Query A V) (sched : List Nat) : Prop := (run q (init : St V) sched).phase = .returned

instance (q : Query A V) (sched : List Nat) : Decidable (Complete q sched) := by
  unfold Complete; infer_instance

/-! ### ASYNC / SPINASYNC -/

/-- **async_complete.**  In every complete schedule, when `Exec` returns: all calls have been
    evaluated, the wait-group counter is `0`, every ASYNC call has been invoked exactly once, its
    goroutine has finished and the row's column holds `f (args)` — the value the unqualified call
    puts there; every SPINASYNC call has been invoked exactly once and has finished. -/
theorem async_complete (q : Query A V) (sched : List Nat) (hc : Complete q sched) :
    let s := run q (init : St V) sched
    s.pc = q.total ∧ s.wg = 0 ∧
    ∀ c, c < q.total →
      (q.strat c = .async →
        s.invoked c = 1 ∧ s.task c = .done ∧ s.col c = .val (some (q.f (q.name c) (q.args c)))) ∧
      (q.strat c = .spinasync → s.invoked c = 1 ∧ s.task c = .done) := by
  intro s
  have h : Inv q s := inv_run q sched
  have hph : s.phase = .returned := hc
  have hpast : s.phase.past = true := by rw [hph]; rfl
  have hpc := h.past_pc hpast
  refine ⟨hpc, ?_, fun c hlt => ⟨fun ha => ?_, fun hs => ?_⟩⟩
  · -- the counter
    have e := h.wgc
    have hz : openC q s.task s.pc = 0 := by
      have : ∀ k, k ≤ q.total → openC q s.task k = 0 := by
        intro k
        induction k with
        | zero => intro _; rfl
        | succ k ih =>
          intro hk
          simp only [openC, ih (by omega), wgt, Nat.zero_add]
          cases hw : (q.strat k).waited
          · simp
          · simp [h.alldone hpast k (by omega) hw, Task.isOpen]
      exact this _ h.pc_le
    simp [hph, hz] at e
    exact e
  · have hd := h.alldone hpast c hlt (by simp [ha, Strategy.waited])
    have ht := h.tstate c (by simp [ha, Strategy.spawns])
    simp only [taskOk, hd] at ht
    refine ⟨ht.1, hd, ?_⟩
    cases h.acol c (by omega) ha with
    | inl hp =>
      have := h.aptr c hp
      simp [pendingPosts, hph] at this
    | inr hv => exact hv
  · have hd := h.alldone hpast c hlt (by simp [hs, Strategy.waited])
    have ht := h.tstate c (by simp [hs, Strategy.spawns])
    simp only [taskOk, hd] at ht
    exact ⟨ht.1, hd⟩

/-! The unqualified query. -/

theorem unqualified_item (q : Query A V) (c : Nat) :
    q.unqualified.item c =
      (if (q.item c).strat = .async then { q.item c with strat := .plain } else q.item c) := by
  simp only [Query.item, Query.unqualified, List.length_map, List.getD_eq_getElem?_getD,
    List.getElem?_map]
  cases q.items[c % q.items.length]? <;> simp

theorem unqualified_name (q : Query A V) (c : Nat) : q.unqualified.name c = q.name c := by
  simp only [Query.name, unqualified_item]
  split <;> rfl

theorem unqualified_value (q : Query A V) (c : Nat) : q.unqualified.value c = q.value c := by
  simp only [Query.value, unqualified_name]; rfl

theorem unqualified_total (q : Query A V) : q.unqualified.total = q.total := by
  simp [Query.total, Query.unqualified]

theorem unqualified_strat_async (q : Query A V) (c : Nat) (h : q.strat c = .async) :
    q.unqualified.strat c = .plain := by
  have h' : (q.item c).strat = .async := h
  simp [Query.strat, unqualified_item, h']

theorem unqualified_strat_other (q : Query A V) (c : Nat) (h : q.strat c ≠ .async) :
    q.unqualified.strat c = q.strat c := by
  have h' : ¬ (q.item c).strat = .async := h
  simp [Query.strat, unqualified_item, h']

/-- What an unqualified call leaves in its column, in every complete schedule. -/
theorem plain_value (q : Query A V) (sched : List Nat) (hc : Complete q sched)
    (c : Nat) (hlt : c < q.total) (hp : q.strat c = .plain) :
    (run q (init : St V) sched).col c = .val (some (q.f (q.name c) (q.args c))) ∧
    (run q (init : St V) sched).invoked c = 1 := by
  have h : Inv q (run q (init : St V) sched) := inv_run q sched
  have hph : (run q (init : St V) sched).phase = .returned := hc
  have hpc := h.past_pc (by rw [hph]; rfl)
  have := h.plainc c (by omega) hp
  exact ⟨this.2, this.1⟩

/-- **async_equals_plain.**  Whatever the two schedules, the column of an ASYNC call after `Exec`
    equals the column the same query leaves there with the qualifier dropped. -/
theorem async_equals_plain (q : Query A V) (sched sched' : List Nat)
    (hc : Complete q sched) (hc' : Complete q.unqualified sched')
    (c : Nat) (hlt : c < q.total) (ha : q.strat c = .async) :
    (run q (init : St V) sched).col c = (run q.unqualified (init : St V) sched').col c := by
  have h1 := ((async_complete q sched hc).2.2 c hlt).1 ha
  have h2 := plain_value q.unqualified sched' hc' c (by rw [unqualified_total]; exact hlt)
    (unqualified_strat_async q c ha)
  rw [h1.2.2, h2.1, unqualified_name]
  rfl

/-! ### The counter -/

/-- Number of calls `< k` satisfying `p`. -/
def cnt (p : Nat → Bool) : Nat → Nat
  | 0 => 0
  | k + 1 => cnt p k + (if p k then 1 else 0)

/-- `wg.Add(1)`s performed: one per started waited goroutine, plus the one of the call whose
    `go` statement has not been reached yet. -/
def addsDone (q : Query A V) (s : St V) : Nat :=
  cnt (fun c => (q.strat c).waited && decide (s.task c ≠ .unspawned)) q.total +
    (if s.phase = .run true then 1 else 0)

/-- `wg.Done()`s performed. -/
def donesDone (q : Query A V) (s : St V) : Nat :=
  cnt (fun c => (q.strat c).waited && decide (s.task c = .done)) q.total

theorem open_add_done_pt (b : Bool) (t : Task) :
    (if (b && t.isOpen) = true then 1 else 0) + (if (b && decide (t = .done)) = true then 1 else 0) =
      (if (b && decide (t ≠ .unspawned)) = true then 1 else 0) := by
  cases b <;> cases t <;> simp [Task.isOpen]

theorem open_add_done (q : Query A V) (task : Nat → Task) : ∀ k,
    openC q task k + cnt (fun c => (q.strat c).waited && decide (task c = .done)) k =
      cnt (fun c => (q.strat c).waited && decide (task c ≠ .unspawned)) k
  | 0 => rfl
  | k + 1 => by
    have ih := open_add_done q task k
    simp only [openC, cnt, wgt]
    have := open_add_done_pt (q.strat k).waited (task k)
    omega

theorem openC_ext (q : Query A V) (task : Nat → Task) (a : Nat)
    (h : ∀ c, a ≤ c → task c = .unspawned) : ∀ k, a ≤ k → openC q task k = openC q task a
  | 0, hk => by have : a = 0 := by omega
                subst this; rfl
  | k + 1, hk => by
    by_cases e : a = k + 1
    · subst e; rfl
    · simp only [openC, wgt, h k (by omega), Task.isOpen, Bool.and_false]
      simpa using openC_ext q task a h k (by omega)

/-- **Counter invariant**: in every reachable state `counter = spawned_waited − done`. -/
theorem counter_invariant (q : Query A V) {s : St V} (r : Reach q s) :
    s.wg + donesDone q s = addsDone q s ∧ s.wg = addsDone q s - donesDone q s := by
  have h := inv_reach r
  have e1 := open_add_done q s.task q.total
  have e2 := openC_ext q s.task s.pc (fun c hc => (h.ahead c hc).1) q.total h.pc_le
  have e3 := h.wgc
  unfold addsDone donesDone
  omega

theorem wgt_le_openC (q : Query A V) (task : Nat → Task) (c : Nat) :
    ∀ k, c < k → wgt q task c ≤ openC q task k
  | 0, h => by omega
  | k + 1, h => by
    by_cases e : c = k
    · subst e; simp [openC]
    · have := wgt_le_openC q task c k (by omega)
      simp only [openC]; omega

/-- `wg.Done()` never drives the counter negative (no `sync: negative WaitGroup counter` panic):
    whenever a goroutine is about to call `Done`, the counter is positive. -/
theorem done_counter_positive (q : Query A V) {s : St V} (r : Reach q s) (c : Nat)
    (hd : s.task c = .stored ∨ (s.task c = .ran ∧ q.strat c = .spinasync)) : 0 < s.wg := by
  have h := inv_reach r
  have hst : s.task c ≠ .unspawned := by
    cases hd with
    | inl x => rw [x]; simp
    | inr x => rw [x.1]; simp
  have hlt := h.lt_of_started hst
  have hw : wgt q s.task c = 1 := by
    cases hd with
    | inl x =>
      have := h.tstate c (h.spawns_of_started hst)
      simp only [taskOk, x] at this
      simp [wgt, x, this.2.1, Task.isOpen, Strategy.waited]
    | inr x => simp [wgt, x.1, x.2, Task.isOpen, Strategy.waited]
  have := wgt_le_openC q s.task c s.pc hlt
  have := h.wgc
  omega

/-! ### SPIN / SPINASYNC add no column -/

theorem spin_no_column (q : Query A V) {s : St V} (r : Reach q s) (c : Nat)
    (hs : q.strat c = .spin) : s.col c = .absent :=
  (inv_reach r).nocol c (Or.inl hs)

theorem spinasync_no_column (q : Query A V) {s : St V} (r : Reach q s) (c : Nat)
    (hs : q.strat c = .spinasync) : s.col c = .absent :=
  (inv_reach r).nocol c (Or.inr hs)

/-- No call is ever invoked twice, whatever its qualifier, in any reachable state (in particular a
    SPIN call, which `Exec` does not wait for, runs at most once — exactly once, once started and
    scheduled). -/
theorem invoked_at_most_once (q : Query A V) {s : St V} (r : Reach q s) (c : Nat) :
    s.invoked c ≤ 1 := by
  have h := inv_reach r
  by_cases hlt : c < s.pc
  · cases hs : (q.strat c).spawns with
    | true =>
      have := h.tstate c hs
      unfold taskOk at this
      cases ht : s.task c <;> simp only [ht] at this <;> omega
    | false =>
      cases hst : q.strat c with
      | plain => have := h.plainc c hlt hst; omega
      | once =>
        obtain ⟨c0, _, _, _, hi⟩ := h.ocall c hlt hst
        rw [hi]; split <;> omega
      | async => rw [hst] at hs; cases hs
      | spin => rw [hst] at hs; cases hs
      | spinasync => rw [hst] at hs; cases hs
  · have := (h.ahead c (by omega)).2.1; omega

/-! ### ONCE -/

/-- **once_single_invocation.**  In every reachable state ONCE has invoked each function at most
    once; and when `Exec` has returned, for every ONCE call `c` there is a call `c0` in the
    *first row* — the same for all ONCE calls of that function — such that the function was
    invoked exactly once by ONCE, on behalf of `c0` only, and the column of `c` holds that one
    value `f (args c0)`: every row sees the same value. -/
theorem once_single_invocation (q : Query A V) (sched : List Nat) :
    let s := run q (init : St V) sched
    (∀ m, s.onceCount m ≤ 1) ∧
    (Complete q sched → ∃ first : Nat → Nat, ∀ c, c < q.total → q.strat c = .once →
      let c0 := first (q.name c)
      c0 ≤ c ∧ c0 < q.items.length ∧ q.strat c0 = .once ∧ q.name c0 = q.name c ∧
      s.onceCount (q.name c) = 1 ∧
      s.invoked c = (if c0 = c then 1 else 0) ∧
      s.col c = .val (some (q.f (q.name c) (q.args c0)))) := by
  intro s
  have h : Inv q s := inv_run q sched
  refine ⟨fun m => ?_, fun hc => ?_⟩
  · have := h.omemo m
    unfold memoOk at this
    cases hf : s.onceFirst m <;> simp only [hf] at this <;> omega
  · have hph : s.phase = .returned := hc
    have hpc := h.past_pc (by rw [hph]; rfl)
    refine ⟨fun m => (s.onceFirst m).getD 0, fun c hlt hs => ?_⟩
    obtain ⟨c0, h1, h2, h3, h4⟩ := h.ocall c (by omega) hs
    have hm := h.omemo (q.name c)
    simp only [memoOk, h1] at hm
    -- the same item in row 0 is a ONCE call of the same function, hence `c0` is in row 0
    have hk : 0 < q.items.length := by
      apply Classical.byContradiction; intro hn
      have : q.items.length = 0 := by omega
      simp [Query.total, this] at hlt
    have hmod : c % q.items.length < q.items.length := Nat.mod_lt _ hk
    have hitem : q.item (c % q.items.length) = q.item c := by simp [Query.item]
    have hlt' : c % q.items.length < s.pc := by
      have : q.items.length ≤ q.total := by
        have hr : 0 < q.rows := by
          apply Classical.byContradiction; intro hn
          have : q.rows = 0 := by omega
          simp [Query.total, this] at hlt
        exact Nat.le_mul_of_pos_left _ hr
      omega
    obtain ⟨c1, g1, g2, _, _⟩ := h.ocall (c % q.items.length) hlt'
      (by simp [Query.strat, hitem]; exact hs)
    have hname : q.name (c % q.items.length) = q.name c := by simp [Query.name, hitem]
    rw [hname, h1] at g1
    cases g1
    show (s.onceFirst (q.name c)).getD 0 ≤ c ∧ _
    simp only [h1, Option.getD_some]
    refine ⟨h2, by omega, hm.2.1, hm.2.2.1, hm.2.2.2.2, h4, ?_⟩
    rw [h3, Query.value, hm.2.2.1]

/-! ### Immediate functions -/

/-- **The decision table** of `FunExpr`: an immediate function is rejected exactly with ASYNC, SPIN
    and SPINASYNC; a non-immediate function is never rejected. -/
theorem immediate_table :
    rejects true .async = true ∧ rejects true .spin = true ∧ rejects true .spinasync = true ∧
    rejects true .plain = false ∧ rejects true .once = false ∧
    (∀ s, rejects false s = false) := by
  refine ⟨rfl, rfl, rfl, rfl, rfl, fun s => rfl⟩

/-- **immediate_rejects.**  For a call of an immediate function qualified with ASYNC, SPIN or
    SPINASYNC: in every reachable state the function has not been invoked, no goroutine was
    started and the row has no such column; when the main goroutine evaluates the call, `Exec`
    fails; and `Exec` never returns rows. -/
theorem immediate_rejects (q : Query A V) (c : Nat) (hlt : c < q.total)
    (himm : q.imm (q.name c) = true)
    (hq : q.strat c = .async ∨ q.strat c = .spin ∨ q.strat c = .spinasync) :
    (∀ s, Reach q s → s.invoked c = 0 ∧ s.task c = .unspawned ∧ s.col c = .absent ∧
      s.phase ≠ .returned) ∧
    (∀ s added, s.pc = c → (evalCall q s added).phase = .failed ∧
      (evalCall q s added).invoked = s.invoked ∧ (evalCall q s added).task = s.task) := by
  have hrej : q.rejected c = true := by
    unfold Query.rejected rejects
    rcases hq with x | x | x <;> simp [himm, x, Strategy.spawns]
  refine ⟨fun s r => ?_, fun s added hpc => ?_⟩
  · have h := inv_reach r
    have hge : s.pc ≤ c := by
      apply Classical.byContradiction; intro hn
      have := h.behind c (by omega); rw [hrej] at this; cases this
    have ha := h.ahead c hge
    refine ⟨ha.2.1, ha.1, ha.2.2, fun hret => ?_⟩
    have := h.past_pc (by rw [hret]; rfl)
    omega
  · subst hpc
    simp [evalCall, hrej]

/-! ### Wait precedes post-processing -/

/-- **wait_before_post.**  (1) The main goroutine leaves the row loop only through `wg.Wait()`,
    which is enabled only when the counter is `0`; (2) a post-processor step (the only step that
    replaces a pointer column) happens only after that: in every reachable state in which a
    post-processor is about to run, or has run, all calls have been evaluated, the counter is `0`
    and every waited goroutine has finished. -/
theorem wait_before_post (q : Query A V) {s : St V} (r : Reach q s) :
    (∀ s' added, s.phase = .run added → s.pc = q.total → step q s 0 = some s' →
      s.wg = 0 ∧ s'.phase = .post s.posts ∧ s'.col = s.col) ∧
    (∀ s' added, s.phase = .run added → step q s 0 = some s' →
      ∀ c, s.col c = .ptr → s'.col c = .ptr) ∧
    (∀ rest, s.phase = .post rest →
      s.pc = q.total ∧ s.wg = 0 ∧ ∀ c, c < q.total → (q.strat c).waited = true → s.task c = .done) := by
  have h := inv_reach r
  refine ⟨fun s' added hph hpc st => ?_, fun s' added hph st c hp => ?_, fun rest hph => ?_⟩
  · simp only [step, stepMain, hph, hpc, Nat.lt_irrefl, if_false] at st
    split at st
    · rename_i hwg; cases st; exact ⟨hwg, rfl, rfl⟩
    · cases st
  · have hc := (h.pend c (h.aptr c hp)).1
    simp only [step, stepMain, hph] at st
    split at st
    · cases st
      have hne : c ≠ s.pc := by omega
      unfold evalCall
      simp only
      split
      · exact hp
      · split
        · simpa [upd_ne _ _ hne] using hp
        · split <;> simpa [upd_ne _ _ hne] using hp
        · exact hp
        · split
          · simpa [upd_ne _ _ hne] using hp
          · exact hp
        · split <;> exact hp
    · split at st
      · cases st; exact hp
      · cases st
  · have hpast : s.phase.past = true := by rw [hph]; rfl
    have hpc := h.past_pc hpast
    refine ⟨hpc, ?_, h.alldone hpast⟩
    have e := h.wgc
    have hz : ∀ k, k ≤ q.total → openC q s.task k = 0 := by
      intro k
      induction k with
      | zero => intro _; rfl
      | succ k ih =>
        intro hk
        simp only [openC, ih (by omega), wgt, Nat.zero_add]
        cases hw : (q.strat k).waited
        · simp
        · simp [h.alldone hpast k (by omega) hw, Task.isOpen]
    simp [hph, hz s.pc h.pc_le] at e
    exact e

/-! ### No deadlock inside a query -/

theorem openC_pos (q : Query A V) (task : Nat → Task) :
    ∀ k, 0 < openC q task k → ∃ c, c < k ∧ (q.strat c).waited = true ∧ (task c).isOpen = true
  | 0, h => by simp [openC] at h
  | k + 1, h => by
    simp only [openC] at h
    by_cases hk : 0 < openC q task k
    · obtain ⟨c, h1, h2⟩ := openC_pos q task k hk
      exact ⟨c, by omega, h2⟩
    · have : 0 < wgt q task k := by omega
      refine ⟨k, by omega, ?_⟩
      unfold wgt at this
      split at this
      · rename_i hh; simpa using hh
      · omega

/-- Until `Exec` has returned (rows or an error) some goroutine can always take a step: the
    library's internal parallelism cannot deadlock the query. -/
theorem async_no_deadlock (q : Query A V) {s : St V} (r : Reach q s)
    (hrun : s.phase ≠ .returned ∧ s.phase ≠ .failed) : ∃ t s', step q s t = some s' := by
  have h := inv_reach r
  cases hph : s.phase with
  | returned => exact absurd hph hrun.1
  | failed => exact absurd hph hrun.2
  | post rest =>
    cases rest with
    | nil => exact ⟨0, by simp only [step, stepMain, hph]; exact ⟨_, rfl⟩⟩
    | cons c rest => exact ⟨0, by simp only [step, stepMain, hph]; exact ⟨_, rfl⟩⟩
  | run added =>
    by_cases hlt : s.pc < q.total
    · exact ⟨0, by simp only [step, stepMain, hph, hlt, if_true]; exact ⟨_, rfl⟩⟩
    · by_cases hwg : s.wg = 0
      · exact ⟨0, by simp only [step, stepMain, hph, hlt, hwg, if_true, if_false]; exact ⟨_, rfl⟩⟩
      · have hadd : added = false := by
          cases added
          · rfl
          · exact absurd (h.added hph).1 hlt
        subst hadd
        have e := h.wgc
        simp [hph] at e
        obtain ⟨c, _, hw, ho⟩ := openC_pos q s.task s.pc (by omega)
        refine ⟨c + 1, ?_⟩
        simp only [step, stepTask]
        cases ht : s.task c with
        | unspawned => rw [ht] at ho; cases ho
        | done => rw [ht] at ho; cases ho
        | pending => exact ⟨_, rfl⟩
        | stored => exact ⟨_, rfl⟩
        | ran =>
          cases hs : q.strat c with
          | async => exact ⟨_, rfl⟩
          | spinasync => exact ⟨_, rfl⟩
          | spin => rw [hs] at hw; cases hw
          | plain => rw [hs] at hw; cases hw
          | once => rw [hs] at hw; cases hw

/-! ### The shape of the extracted event order -/

/-- Per-call event order of an ASYNC call in the model. -/
def canonAsync : List Ev := [.wgAdd, .go, .invoke, .store, .wgDone, .wgWait, .post]
/-- Per-call event order of a SPINASYNC call in the model. -/
def canonSpinAsync : List Ev := [.wgAdd, .go, .invoke, .wgDone, .wgWait]

theorem splitAt_spec (e : Ev) : ∀ (l a b : List Ev), splitAt e l = some (a, b) →
    l = a ++ e :: b ∧ e ∉ a
  | [], a, b, h => by simp [splitAt] at h
  | x :: xs, a, b, h => by
    unfold splitAt at h
    split at h
    · rename_i hx
      cases h; subst hx; simp
    · rename_i hx
      split at h
      · rename_i a' b' hs
        have := splitAt_spec e xs a' b' hs
        cases h
        refine ⟨by rw [this.1]; rfl, ?_⟩
        simp only [List.mem_cons, not_or]
        exact ⟨fun c => hx c.symm, this.2⟩
      · cases h

theorem splitAt_append (e : Ev) : ∀ (a b : List Ev), e ∉ a → splitAt e (a ++ e :: b) = some (a, b)
  | [], b, _ => by simp [splitAt]
  | x :: a, b, h => by
    simp only [List.mem_cons, not_or] at h
    have hx : ¬ x = e := fun c => h.1 c.symm
    simp [splitAt, hx, splitAt_append e a b h.2]

theorem bodyOk_iff (body : List Ev) :
    bodyOk body = true ↔ body = [.invoke, .store, .wgDone] ∨ body = [.invoke, .wgDone] := by
  constructor
  · intro h
    unfold bodyOk at h
    split at h
    · exact Or.inl rfl
    · exact Or.inr rfl
    · cases h
  · rintro (h | h) <;> subst h <;> rfl

/-- **The shape is the protocol order.**  `AsyncShape` accepts exactly the lists
    `wgAdd, go, invoke, (store,) wgDone, wgWait, post*`. -/
theorem asyncShape_iff (evs : List Ev) :
    AsyncShape evs = true ↔
      ∃ body posts, evs = [.wgAdd, .go] ++ body ++ .wgWait :: posts ∧
        (body = [.invoke, .store, .wgDone] ∨ body = [.invoke, .wgDone]) ∧ ∀ e, e ∈ posts → e = .post := by
  constructor
  · intro h
    unfold AsyncShape at h
    split at h
    · cases h
    · rename_i pre rest hs1
      simp only [Bool.and_eq_true, beq_iff_eq] at h
      obtain ⟨hpre, h⟩ := h
      split at h
      · cases h
      · rename_i body tail hs2
        simp only [Bool.and_eq_true, List.all_eq_true, beq_iff_eq] at h
        have e1 := (splitAt_spec _ _ _ _ hs1).1
        have e2 := (splitAt_spec _ _ _ _ hs2).1
        refine ⟨body, tail, ?_, (bodyOk_iff body).1 h.1, h.2⟩
        rw [e1, hpre, e2]; simp
  · rintro ⟨body, posts, he, hb, hp⟩
    subst he
    have h1 : splitAt .go ([.wgAdd, .go] ++ body ++ .wgWait :: posts) =
        some ([.wgAdd], body ++ .wgWait :: posts) := by
      have := splitAt_append .go [.wgAdd] (body ++ .wgWait :: posts) (by simp)
      simpa using this
    have h2 : splitAt .wgWait (body ++ .wgWait :: posts) = some (body, posts) :=
      splitAt_append .wgWait body posts (by rcases hb with h | h <;> subst h <;> simp)
    unfold AsyncShape
    simp only [h1, h2, Bool.and_eq_true, List.all_eq_true, beq_iff_eq]
    exact ⟨by simp, (bodyOk_iff body).2 hb, hp⟩

/-- The protocol hypotheses the model builds in, stated about a program-order event list. -/
structure ProtocolHyps (evs : List Ev) : Prop where
  /-- `wg.Add` precedes `go` (so the counter already accounts for the goroutine when it starts,
      and `Wait` cannot pass before it is counted). -/
  add_before_go : ∀ a b, evs = a ++ .go :: b → .wgAdd ∈ a
  /-- exactly one `Add`, one `go`, one `Done`, one `invoke`, one `Wait`. -/
  counts : evs.count .wgAdd = 1 ∧ evs.count .go = 1 ∧ evs.count .wgDone = 1 ∧
    evs.count .invoke = 1 ∧ evs.count .wgWait = 1
  /-- the goroutine body (between `go` and `Wait`) ends with `Done`; the call and the store
      precede it. -/
  body_ends_done : ∃ pre body rest, evs = pre ++ .go :: body ++ .wgWait :: rest ∧
    .go ∉ pre ∧ .wgWait ∉ body ∧ body.getLast? = some .wgDone ∧
    (∀ a b, body = a ++ .wgDone :: b → .invoke ∈ a ∧ (.store ∈ body → .store ∈ a))
  /-- `Wait` precedes every post-processor. -/
  wait_before_post : ∀ a b, evs = a ++ .post :: b → .wgWait ∈ a
  /-- a store, if any, follows the call. -/
  store_after_invoke : ∀ a b, evs = a ++ .store :: b → .invoke ∈ a

theorem append_cons_cases {α : Type} {x y : α} {a b l r : List α} (h : l ++ x :: r = a ++ y :: b) :
    (∃ m, a = l ++ x :: m) ∨ (a = l ∧ x = y ∧ r = b) ∨ (∃ m, l = a ++ y :: m) := by
  induction l generalizing a with
  | nil =>
    cases a with
    | nil => simp at h; exact Or.inr (Or.inl ⟨rfl, h.1, h.2⟩)
    | cons z a' => simp at h; exact Or.inl ⟨a', by simp [h.1]⟩
  | cons z l ih =>
    cases a with
    | nil => simp at h; exact Or.inr (Or.inr ⟨l, by simp [h.1]⟩)
    | cons w a' =>
      simp at h
      rcases ih h.2 with ⟨m, hm⟩ | ⟨h1, h2, h3⟩ | ⟨m, hm⟩
      · exact Or.inl ⟨m, by simp [h.1, hm]⟩
      · exact Or.inr (Or.inl ⟨by simp [h.1, h1], h2, h3⟩)
      · exact Or.inr (Or.inr ⟨m, by simp [h.1, hm]⟩)

/-- **A program of that shape satisfies the protocol hypotheses.** -/
theorem asyncShape_protocol (evs : List Ev) (h : AsyncShape evs = true) : ProtocolHyps evs := by
  obtain ⟨body, posts, he, hb, hp⟩ := (asyncShape_iff evs).1 h
  have hpost : ∀ e, e ≠ .post → e ∉ posts := fun e hne hm => hne (hp e hm)
  have hcount : ∀ e, e ≠ .post → posts.count e = 0 := fun e hne =>
    List.count_eq_zero.2 (hpost e hne)
  subst he
  refine ⟨?_, ?_, ?_, ?_, ?_⟩
  · intro a b hab
    have hab' : [Ev.wgAdd] ++ Ev.go :: (body ++ .wgWait :: posts) = a ++ .go :: b := by simpa using hab
    rcases append_cons_cases hab' with ⟨m, hm⟩ | ⟨h1, _, _⟩ | ⟨m, hm⟩
    · rw [hm]; simp
    · rw [h1]; simp
    · cases a with
      | nil => simp at hm
      | cons z a' => simp at hm
  · rcases hb with hb | hb <;> subst hb <;>
      simp [hcount]
  · refine ⟨[.wgAdd], body, posts, by simp, by simp, ?_, ?_, ?_⟩
    · rcases hb with hb | hb <;> subst hb <;> simp
    · rcases hb with hb | hb <;> subst hb <;> simp
    · intro a b hab
      rcases hb with hb | hb <;> subst hb
      · have : a = [.invoke, .store] := by
          match a, hab with
          | [], hab => simp at hab
          | [_], hab => simp at hab
          | [_, _], hab => simp at hab; simp [hab.1, hab.2.1]
          | [_, _, _], hab => simp at hab
          | _ :: _ :: _ :: _ :: _, hab => simp at hab
        subst this; simp
      · have : a = [.invoke] := by
          match a, hab with
          | [], hab => simp at hab
          | [_], hab => simp at hab; simp [hab.1]
          | [_, _], hab => simp at hab
          | _ :: _ :: _ :: _, hab => simp at hab
        subst this; simp
  · intro a b hab
    have hab' : ([Ev.wgAdd, .go] ++ body) ++ Ev.wgWait :: posts = a ++ .post :: b := by
      simpa using hab
    rcases append_cons_cases hab' with ⟨m, hm⟩ | ⟨_, h2, _⟩ | ⟨m, hm⟩
    · rw [hm]; simp
    · cases h2
    · exfalso
      have : Ev.post ∈ [Ev.wgAdd, .go] ++ body := by rw [hm]; simp
      rcases hb with hb | hb <;> subst hb <;> simp at this
  · intro a b hab
    rcases hb with hb | hb <;> subst hb
    · have hab' : [Ev.wgAdd, .go, .invoke] ++ Ev.store :: (.wgDone :: .wgWait :: posts) =
          a ++ .store :: b := by simpa using hab
      rcases append_cons_cases hab' with ⟨m, hm⟩ | ⟨h1, _, _⟩ | ⟨m, hm⟩
      · rw [hm]; simp
      · rw [h1]; simp
      · exfalso
        have : Ev.store ∈ [Ev.wgAdd, .go, .invoke] := by rw [hm]; simp
        simp at this
    · exfalso
      have : Ev.store ∈ [Ev.wgAdd, .go] ++ [.invoke, .wgDone] ++ .wgWait :: posts := by
        rw [hab]; simp
      simp at this
      exact hpost .store (by simp) this

/-- A program of that shape performs, for each call, the same events in the same order as the
    model (`canonAsync` / `canonSpinAsync`), up to the number of post-processors it registers. -/
theorem asyncShape_model_order (evs : List Ev) (h : AsyncShape evs = true) :
    ∃ k, evs = canonAsync.dropLast ++ List.replicate k .post ∨
         evs = canonSpinAsync ++ List.replicate k .post := by
  obtain ⟨body, posts, he, hb, hp⟩ := (asyncShape_iff evs).1 h
  refine ⟨posts.length, ?_⟩
  have : posts = List.replicate posts.length .post := List.eq_replicate_iff.2 ⟨rfl, hp⟩
  rcases hb with hb | hb <;> subst hb
  · left; rw [he, this]; simp [canonAsync]
  · right; rw [he, this]; simp [canonSpinAsync]

/-- **The model has the shape.**  In EVERY complete schedule the events performed on behalf of an
    ASYNC (SPINASYNC) call — `wgWait` included — are, in order, exactly `canonAsync`
    (`canonSpinAsync`), which `AsyncShape` accepts. -/
theorem model_has_shape (q : Query A V) (sched : List Nat) (hc : Complete q sched) (c : Nat)
    (hlt : c < q.total) :
    (q.strat c = .async → proj c (trace q (init : St V) sched) = canonAsync) ∧
    (q.strat c = .spinasync → proj c (trace q (init : St V) sched) = canonSpinAsync) ∧
    ((q.strat c).waited = true → AsyncShape (proj c (trace q (init : St V) sched)) = true) := by
  have h : Inv q (run q (init : St V) sched) := inv_run q sched
  have hph : (run q (init : St V) sched).phase = .returned := hc
  have hpast : (run q (init : St V) sched).phase.past = true := by rw [hph]; rfl
  have hpc := h.past_pc hpast
  have hA : q.strat c = .async → proj c (trace q (init : St V) sched) = canonAsync := by
    intro ha
    have hw : (q.strat c).waited = true := by simp [ha, Strategy.waited]
    rw [trace_expected q sched c hlt hw]
    have hd := h.alldone hpast c hlt hw
    simp [expected, hpc, hlt, hph, Phase.past, pendingPosts, ha, hd, taskEvs, canonAsync]
  have hS : q.strat c = .spinasync → proj c (trace q (init : St V) sched) = canonSpinAsync := by
    intro ha
    have hw : (q.strat c).waited = true := by simp [ha, Strategy.waited]
    rw [trace_expected q sched c hlt hw]
    have hd := h.alldone hpast c hlt hw
    simp [expected, hpc, hlt, hph, Phase.past, pendingPosts, ha, hd, taskEvs, canonSpinAsync]
  refine ⟨hA, hS, fun hw => ?_⟩
  cases hs : q.strat c with
  | async => rw [hA hs]; decide
  | spinasync => rw [hS hs]; decide
  | plain => rw [hs] at hw; cases hw
  | spin => rw [hs] at hw; cases hw
  | once => rw [hs] at hw; cases hw

-- the event order of `FunExpr` (async, spinasync) + `execAndPostProcess` in the repaired tree
example : AsyncShape [.wgAdd, .go, .invoke, .store, .wgDone, .wgWait, .post] = true := by decide
example : AsyncShape [.wgAdd, .go, .invoke, .wgDone, .wgWait] = true := by decide
-- two post-processors per ASYNC call (the one of `FunExpr` and the one of `SelectExpr`)
example : AsyncShape [.wgAdd, .go, .invoke, .store, .wgDone, .wgWait, .post, .post] = true := by decide
-- mutants: `go` before `Add`; `Done` not last in the body; post-processing before the `Wait`;
-- no `Add` (that is SPIN); no `Wait`
example : AsyncShape [.go, .wgAdd, .invoke, .store, .wgDone, .wgWait, .post] = false := by decide
example : AsyncShape [.wgAdd, .go, .wgDone, .invoke, .store, .wgWait, .post] = false := by decide
example : AsyncShape [.wgAdd, .go, .invoke, .store, .wgDone, .post, .wgWait] = false := by decide
example : AsyncShape [.go, .invoke, .wgWait] = false := by decide
example : AsyncShape [.wgAdd, .go, .invoke, .store, .wgDone, .post] = false := by decide

/-! ### Nested queries forward their wait -/

namespace NestedProof
open Genql.Async.Nested

structure NInv (s : Nested.St) : Prop where
  pw : s.pw = (if s.main = .added ∨ s.fwd = .waiting ∨ s.fwd = .passed then 1 else 0)
  fwd0 : s.main = .start ∨ s.main = .added → s.fwd = .notStarted
  fwd1 : s.main = .spawned ∨ s.main = .returned → s.fwd ≠ .notStarted
  passed : s.fwd = .passed ∨ s.fwd = .done → s.cw = 0

theorem ninv_step {s s' : Nested.St} {t : Nat} (h : NInv s) (st : Nested.step s t = some s') :
    NInv s' := by
  obtain ⟨cw, pw, fwd, main⟩ := s
  obtain ⟨h1, h2, h3, h4⟩ := h
  simp only at h1 h2 h3 h4
  match t with
  | 0 =>
    cases main <;> simp only [Nested.step] at st
    · cases st; have := h2 (Or.inl rfl); subst this; constructor <;> simp_all
    · cases st; have := h2 (Or.inr rfl); subst this; constructor <;> simp_all
    · split at st
      · cases st; constructor <;> simp_all
      · cases st
    · cases st
  | 1 =>
    cases fwd <;> simp only [Nested.step] at st
    · cases st
    · split at st
      · cases st; constructor <;> simp_all
      · cases st
    · cases st; constructor <;> simp_all
    · cases st
  | t + 2 =>
    simp only [Nested.step] at st
    split at st
    · cases st
    · cases st; constructor <;> simp_all

theorem ninv_reach {k : Nat} {s : Nested.St} (r : Nested.Reach k s) : NInv s := by
  induction r with
  | init => constructor <;> simp [Nested.init]
  | step _ st ih => exact ninv_step ih st

end NestedProof

/-- **nested_wait_forwarded.**  In every interleaving, once the parent's `wg.Wait()` has returned
    (so before any post-processor — including the sub-query's, which were appended to the
    parent's — runs), every goroutine of the sub-query has finished. -/
theorem nested_wait_forwarded (k : Nat) {s : Nested.St} (r : Nested.Reach k s)
    (hret : s.main = .returned) : s.cw = 0 ∧ s.fwd = .done ∧ s.pw = 0 := by
  have h := NestedProof.ninv_reach r
  -- `returned` is entered only with `pw = 0`, and `pw` is an indicator
  have key : ∀ {s : Nested.St}, Nested.Reach k s → s.main = .returned → s.pw = 0 := by
    intro s r
    induction r with
    | init => intro c; cases c
    | step r' st ih =>
      rename_i s1 s2 t
      intro hm
      have h1 := NestedProof.ninv_reach r'
      obtain ⟨cw, pw, fwd, main⟩ := s1
      match t with
      | 0 =>
        cases main <;> simp only [Nested.step] at st
        · cases st; cases hm
        · cases st; cases hm
        · split at st
          · rename_i hz; cases st; exact hz
          · cases st
        · cases st
      | 1 =>
        cases fwd <;> simp only [Nested.step] at st
        · cases st
        · split at st
          · cases st; exact ih hm
          · cases st
        · cases st; have := ih hm; simp only at this ⊢; omega
        · cases st
      | t + 2 =>
        simp only [Nested.step] at st
        split at st
        · cases st
        · cases st; exact ih hm
  have hpw := key r hret
  have e := h.pw
  rw [hpw, hret] at e
  have hne := h.fwd1 (Or.inr hret)
  have hd : s.fwd = .done := by
    cases hf : s.fwd with
    | notStarted => exact absurd hf hne
    | waiting => simp [hf] at e
    | passed => simp [hf] at e
    | done => rfl
  exact ⟨h.passed (Or.inr hd), hd, hpw⟩

-- three sub-query goroutines still running when the parent starts forwarding; a schedule
example : Nested.run (Nested.init 3) [0, 0, 0, 1, 2, 3, 1, 0, 4, 1, 1, 0] = ⟨0, 0, .done, .returned⟩ := by
  decide
-- the parent's `Wait` is blocked while a sub-query goroutine is running
example : (Nested.step (Nested.run (Nested.init 3) [0, 0, 2, 3, 1]) 0).isNone = true := by decide

/-! ### Non-vacuity: concrete 2-row / 2-item instances -/

/-- `SELECT ASYNC f0(x), ONCE f1(x) FROM t` over two rows; `f m a = 10 * m + a`, the argument of
    call `c` is `c + 1`. -/
def q1 : Query Nat Nat where
  rows := 2
  items := [⟨.async, 0⟩, ⟨.once, 1⟩]
  f := fun m a => 10 * m + a
  args := fun c => c + 1
  imm := fun m => m == 7

/-- Main runs to the `Wait` (and is blocked there), the goroutines of calls 2 and 0 then run in
    that order, interleaved, then main finishes. -/
def sched1 : List Nat := [0, 0, 0, 0, 0, 0, 0, 3, 1, 3, 1, 0, 3, 1, 0, 0, 0, 0]

example : Complete q1 sched1 := by decide
-- ASYNC columns hold `f0 (c+1)`; the ONCE column of both rows holds `f1 (args of call 1)` = 12
example : ((run q1 init sched1).col 0, (run q1 init sched1).col 1, (run q1 init sched1).col 2,
    (run q1 init sched1).col 3) = (.val (some 1), .val (some 12), .val (some 3), .val (some 12)) := by
  decide
example : (run q1 init sched1).onceCount 1 = 1 ∧ (run q1 init sched1).invoked 1 = 1 ∧
    (run q1 init sched1).invoked 3 = 0 := by decide
-- `wg.Wait()` really blocks: after all calls are evaluated and before any goroutine finished,
-- the main goroutine is disabled and the counter is 2
example : (step q1 (run q1 init [0, 0, 0, 0, 0, 0]) 0).isNone = true ∧
    (run q1 init [0, 0, 0, 0, 0, 0]).wg = 2 := by decide
-- a different interleaving (goroutines run as soon as they are started) gives the same columns
def sched1' : List Nat := [0, 0, 1, 1, 1, 0, 0, 0, 3, 3, 3, 0, 0, 0, 0, 0]
example : Complete q1 sched1' := by decide
example : (run q1 init sched1').col 0 = (run q1 init sched1).col 0 ∧
    (run q1 init sched1').col 2 = (run q1 init sched1).col 2 := by decide
-- the unqualified query, sequentially
example : Complete q1.unqualified [0, 0, 0, 0, 0, 0] := by decide
example : (run q1.unqualified init [0, 0, 0, 0, 0, 0]).col 2 = .val (some 3) := by decide

/-- `SELECT SPINASYNC f2(x), SPIN f0(x) FROM t` over two rows. -/
def q2 : Query Nat Nat := { q1 with items := [⟨.spinasync, 2⟩, ⟨.spin, 0⟩] }

/-- The SPIN goroutine of call 3 never runs before `Exec` returns; that of call 1 does. -/
def sched2 : List Nat := [0, 0, 0, 1, 2, 0, 0, 0, 3, 3, 1, 2, 0, 0]

example : Complete q2 sched2 := by decide
example : ((run q2 init sched2).col 0, (run q2 init sched2).col 1, (run q2 init sched2).col 2,
    (run q2 init sched2).col 3) = (.absent, .absent, .absent, .absent) := by decide
example : ((run q2 init sched2).invoked 0, (run q2 init sched2).invoked 2,
    (run q2 init sched2).task 0, (run q2 init sched2).task 2) = (1, 1, .done, .done) := by decide
example : (run q2 init sched2).task 3 = .pending ∧ (run q2 init sched2).invoked 3 = 0 := by decide

/-- An immediate function (`7`) qualified with ASYNC in the second item. -/
def q3 : Query Nat Nat := { q1 with items := [⟨.plain, 0⟩, ⟨.async, 7⟩] }

example : (run q3 init [0, 0, 0, 0]).phase = .failed ∧ (run q3 init [0, 0, 0, 0]).invoked 1 = 0 ∧
    (run q3 init [0, 0, 0, 0]).wg = 0 := by decide
example : q3.imm (q3.name 1) = true ∧ q3.strat 1 = .async ∧ 1 < q3.total := by decide

-- the per-call event order of concrete runs (two different interleavings)
example : proj 0 (trace q1 init sched1) = canonAsync ∧ proj 2 (trace q1 init sched1) = canonAsync ∧
    proj 2 (trace q1 init sched1') = canonAsync := by decide
example : proj 0 (trace q2 init sched2) = canonSpinAsync := by decide
-- hypotheses of the general theorems hold on the instances
example : 0 < q1.total ∧ q1.strat 0 = .async ∧ q1.strat 1 = .once ∧ q1.strat 2 = .async := by decide
example : q2.strat 0 = .spinasync ∧ q2.strat 1 = .spin := by decide

end Genql.C14
