/-
  Property C06 — DISTINCT removes exactly the duplicates; UNION [ALL] concatenates [and dedups].

  The seen-set scan of `ExecDistinct` (`dedupBy`, with the fingerprint comparison abstracted as an
  equivalence `same`) is the textbook duplicate elimination `specDedup`: keep the head, and from the
  deduplicated tail delete whatever is `same` as the head.  For `same := (· == ·)` on a type with
  lawful equality this is `List.eraseDups`.
-/
import Genql.Model.Algo
set_option linter.unusedSectionVars false
set_option linter.unusedVariables false
namespace Genql.C06
open Genql
variable {α : Type}

/-- textbook duplicate elimination (first occurrences, source order) -/
def specDedup (same : α → α → Bool) : List α → List α
  | [] => []
  | x :: xs => x :: (specDedup same xs).filter (fun y => !same x y)

/-- `same` is an equivalence relation (what equality of fingerprints is) -/
structure Equiv (same : α → α → Bool) : Prop where
  refl : ∀ a, same a a = true
  symm : ∀ a b, same a b = same b a
  trans : ∀ a b c, same a b = true → same b c = true → same a c = true

theorem dedupLoop_eq_spec (same : α → α → Bool) (h : Equiv same) :
    ∀ (xs seen : List α),
      dedupLoop same xs seen = (specDedup same xs).filter (fun y => !seen.any (same y)) := by
  intro xs
  induction xs with
  | nil => intro seen; simp [dedupLoop, specDedup]
  | cons x xs ih =>
    intro seen
    simp only [dedupLoop, specDedup]
    by_cases hx : seen.any (same x) = true
    · simp only [hx, if_true, List.filter_cons, Bool.not_true, Bool.false_eq_true, if_false]
      rw [ih seen, List.filter_filter]
      apply List.filter_congr
      intro y _
      -- a survivor y of the seen-filter cannot be `same` as x, because x is `same` as a seen element
      cases hy : seen.any (same y) with
      | true => simp
      | false =>
        simp only [Bool.not_false, Bool.true_and]
        cases hxy : same x y with
        | false => rfl
        | true =>
          exfalso
          obtain ⟨s, hs, hxs⟩ := List.any_eq_true.mp hx
          have : same y s = true := h.trans y x s (by rw [h.symm]; exact hxy) hxs
          have : seen.any (same y) = true := List.any_eq_true.mpr ⟨s, hs, this⟩
          rw [hy] at this; cases this
    · have hx' : seen.any (same x) = false := by simpa using hx
      simp only [hx', Bool.false_eq_true, if_false, List.filter_cons, Bool.not_false, if_true]
      rw [ih (x :: seen), List.filter_filter]
      congr 1
      apply List.filter_congr
      intro y _
      simp only [List.any_cons, Bool.not_or, h.symm y x]
      rw [Bool.and_comm]

/-- **DISTINCT = first occurrences.** Each class of `same` is kept exactly once, at the position
    of its first member, in source order. -/
theorem dedup_first_occurrence (same : α → α → Bool) (h : Equiv same) (xs : List α) :
    dedupBy same xs = specDedup same xs := by
  unfold dedupBy
  rw [dedupLoop_eq_spec same h xs []]
  simp

theorem specDedup_sublist (same : α → α → Bool) (xs : List α) : (specDedup same xs).Sublist xs := by
  induction xs with
  | nil => simp [specDedup]
  | cons x xs ih =>
    simp only [specDedup]
    exact List.Sublist.cons_cons x ((List.filter_sublist).trans ih)

/-- nothing is invented and order is preserved: the result is a sublist of the input -/
theorem dedup_sublist (same : α → α → Bool) (h : Equiv same) (xs : List α) :
    (dedupBy same xs).Sublist xs := by
  rw [dedup_first_occurrence same h]; exact specDedup_sublist same xs

theorem specDedup_nodup (same : α → α → Bool) (xs : List α) :
    (specDedup same xs).Pairwise (fun a b => same a b = false) := by
  induction xs with
  | nil => simp [specDedup]
  | cons x xs ih =>
    simp only [specDedup]
    refine List.Pairwise.cons ?_ (ih.sublist List.filter_sublist)
    intro y hy
    simp only [List.mem_filter, Bool.not_eq_true'] at hy
    exact hy.2

/-- no two kept rows are `same` -/
theorem dedup_nodup (same : α → α → Bool) (h : Equiv same) (xs : List α) :
    (dedupBy same xs).Pairwise (fun a b => same a b = false) := by
  rw [dedup_first_occurrence same h]; exact specDedup_nodup same xs

theorem specDedup_covers (same : α → α → Bool) (h : Equiv same) (xs : List α) :
    ∀ x ∈ xs, ∃ y ∈ specDedup same xs, same y x = true := by
  induction xs with
  | nil => intro x hx; cases hx
  | cons a xs ih =>
    intro x hx
    simp only [specDedup]
    rcases List.mem_cons.mp hx with rfl | hx'
    · exact ⟨x, by simp, h.refl x⟩
    · obtain ⟨y, hy, hyx⟩ := ih x hx'
      by_cases hs : same a y = true
      · exact ⟨a, by simp, h.trans a y x hs hyx⟩
      · refine ⟨y, ?_, hyx⟩
        simp only [List.mem_cons, List.mem_filter, Bool.not_eq_true']
        exact .inr ⟨hy, by simpa using hs⟩

/-- every input row is represented: membership up to `same` is preserved -/
theorem dedup_mem_iff (same : α → α → Bool) (h : Equiv same) (xs : List α) (x : α) :
    (∃ y ∈ dedupBy same xs, same y x = true) ↔ (∃ z ∈ xs, same z x = true) := by
  rw [dedup_first_occurrence same h]
  constructor
  · rintro ⟨y, hy, hyx⟩
    exact ⟨y, (specDedup_sublist same xs).subset hy, hyx⟩
  · rintro ⟨z, hz, hzx⟩
    obtain ⟨y, hy, hyz⟩ := specDedup_covers same h xs z hz
    exact ⟨y, hy, h.trans y z x hyz hzx⟩

theorem specDedup_fix (same : α → α → Bool) (xs : List α)
    (hp : xs.Pairwise (fun a b => same a b = false)) : specDedup same xs = xs := by
  induction xs with
  | nil => simp [specDedup]
  | cons x xs ih =>
    simp only [List.pairwise_cons] at hp
    simp only [specDedup, ih hp.2]
    congr 1
    apply List.filter_eq_self.mpr
    intro y hy
    simp [hp.1 y hy]

/-- DISTINCT is idempotent -/
theorem dedup_idempotent (same : α → α → Bool) (h : Equiv same) (xs : List α) :
    dedupBy same (dedupBy same xs) = dedupBy same xs := by
  rw [dedup_first_occurrence same h (dedupBy same xs)]
  exact specDedup_fix same _ (dedup_nodup same h xs)

/-! ### UNION -/

/-- the rows a union node hands to the rest of the pipeline (`BuildUnion`): both branches appended,
    deduplicated unless ALL -/
def unionRows (same : α → α → Bool) (distinct : Bool) (l r : List α) : List α :=
  if distinct then dedupBy same (l ++ r) else l ++ r

theorem union_all_append (same : α → α → Bool) (l r : List α) : unionRows same false l r = l ++ r := rfl

theorem union_dedup (same : α → α → Bool) (h : Equiv same) (l r : List α) :
    unionRows same true l r = specDedup same (l ++ r) := by
  simp [unionRows, dedup_first_occurrence same h]

theorem filter_not_same_comm (same : α → α → Bool) (a b : α) (l : List α) :
    (l.filter (fun y => !same a y)).filter (fun y => !same b y) =
    (l.filter (fun y => !same b y)).filter (fun y => !same a y) := by
  rw [List.filter_filter, List.filter_filter]
  apply List.filter_congr
  intro y _; rw [Bool.and_comm]

theorem specDedup_filter (same : α → α → Bool) (h : Equiv same) (a : α) (xs : List α) :
    specDedup same (xs.filter (fun y => !same a y)) = (specDedup same xs).filter (fun y => !same a y) := by
  induction xs with
  | nil => simp [specDedup]
  | cons x xs ih =>
    by_cases hx : same a x = true
    · simp only [List.filter_cons, hx, Bool.not_true, Bool.false_eq_true, if_false, specDedup]
      rw [ih, List.filter_filter]
      apply List.filter_congr
      intro y _
      cases hay : same a y with
      | true => simp
      | false =>
        simp only [Bool.not_false, Bool.true_and]
        cases hxy : same x y with
        | false => rfl
        | true =>
          have := h.trans a x y hx hxy
          rw [hay] at this; cases this
    · have hx' : same a x = false := by simpa using hx
      simp only [List.filter_cons, hx', Bool.not_false, if_true, specDedup]
      rw [ih, filter_not_same_comm]

theorem specDedup_append_left (same : α → α → Bool) (h : Equiv same) :
    ∀ (n : Nat) (xs c : List α), xs.length ≤ n →
      specDedup same (specDedup same xs ++ c) = specDedup same (xs ++ c) := by
  intro n
  induction n with
  | zero => intro xs c hl; cases xs <;> simp_all [specDedup]
  | succ n ih =>
    intro xs c hl
    cases xs with
    | nil => simp [specDedup]
    | cons x xs =>
      have hlen : (xs.filter (fun y => !same x y)).length ≤ n := by
        have := List.length_filter_le (fun y => !same x y) xs
        simp at hl; omega
      simp only [specDedup, List.cons_append]
      congr 1
      -- push the outer filter inside, use idempotence of the filter, pull it out again
      rw [← specDedup_filter same h x, ← specDedup_filter same h x (xs ++ c)]
      rw [List.filter_append, List.filter_append, List.filter_filter]
      have : (fun y => (!same x y) && !same x y) = (fun y => !same x y) := by
        funext y; simp
      rw [this, ← specDedup_filter same h x xs]
      exact ih _ _ hlen

/-- chains associate: `(A UNION B) UNION C` deduplicates exactly like one pass over `A ++ B ++ C` -/
theorem union_chain_assoc (same : α → α → Bool) (h : Equiv same) (a b c : List α) :
    unionRows same true (unionRows same true a b) c = specDedup same (a ++ b ++ c) := by
  rw [union_dedup same h, union_dedup same h]
  exact specDedup_append_left same h _ (a ++ b) c (Nat.le_refl _)

/-- a mixed chain: `(A UNION ALL B) UNION C` is one deduplication of everything, and
    `(A UNION B) UNION ALL C` keeps C's rows as they are -/
theorem union_mixed (same : α → α → Bool) (h : Equiv same) (a b c : List α) :
    unionRows same true (unionRows same false a b) c = specDedup same (a ++ b ++ c) ∧
    unionRows same false (unionRows same true a b) c = specDedup same (a ++ b) ++ c := by
  simp [unionRows, dedup_first_occurrence same h]

/-- a LIMIT/OFFSET written on the union is applied to the combined (deduplicated) rows -/
theorem union_limit_outermost (same : α → α → Bool) (distinct : Bool) (l r : List α) (off lim : Option Nat) :
    window (unionRows same distinct l r) off lim =
      .ok (((unionRows same distinct l r).drop (off.getD 0)).take (lim.getD (unionRows same distinct l r).length)) := by
  generalize unionRows same distinct l r = rs
  unfold window
  simp only
  by_cases h : off.getD 0 ≥ rs.length
  · simp [h, List.drop_eq_nil_of_le h]
  · simp only [h, if_false]
    by_cases h2 : lim.getD rs.length > rs.length - off.getD 0
    · simp only [h2, if_true]
      have : ¬ (off.getD 0 + (rs.length - off.getD 0) > rs.length) := by omega
      simp only [this, if_false]
      congr 1
      rw [List.take_of_length_le (by simp), List.take_of_length_le (by simp; omega)]
    · simp only [h2, if_false]
      have : ¬ (off.getD 0 + lim.getD rs.length > rs.length) := by omega
      simp [this]

/-- non-vacuity: equality on `Nat` is such a relation, and the scan really drops the later copies -/
theorem natEq_equiv : Equiv (fun a b : Nat => a == b) where
  refl := by simp
  symm := by
    intro a b
    rw [Bool.eq_iff_iff]
    simp only [beq_iff_eq]
    exact eq_comm
  trans := by
    intro a b c h1 h2
    have e1 : a = b := by simpa using h1
    have e2 : b = c := by simpa using h2
    simp [e1, e2]

example : dedupBy (fun a b : Nat => a == b) [1, 2, 1, 3, 2] = [1, 2, 3] := by decide
example : unionRows (fun a b : Nat => a == b) true (unionRows (fun a b : Nat => a == b) true [1, 2] [2, 3]) [3, 1, 4]
    = [1, 2, 3, 4] := by decide

end Genql.C06
