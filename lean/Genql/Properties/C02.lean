/-
  Property C02 — projection: one output row per kept row, the right keys, the right values,
  nothing from other rows, nothing engine-internal.
-/
import Genql.Model.Eval
import Genql.Proofs.Pred
import Genql.Proofs.ValEq
import Genql.Inst.IntNum
set_option linter.unusedSectionVars false
set_option linter.unusedVariables false
set_option linter.unusedSimpArgs false
namespace Genql.C02
open Genql
variable {N : Type} [Num N]

/-! ### one output row per input row, each computed from its own row only -/

theorem mapE_ok_get {ε α β : Type} {f : α → Except ε β} {xs : List α} {ys : List β}
    (h : mapE f xs = .ok ys) : ∀ (i : Nat) (hi : i < xs.length) (hj : i < ys.length),
      f xs[i] = .ok ys[i] := by
  induction xs generalizing ys with
  | nil => intro i hi; cases hi
  | cons x xs ih =>
    simp only [mapE, bind, Except.bind] at h
    split at h
    · cases h
    · rename_i y hy
      split at h
      · cases h
      · rename_i ys' hys
        simp only [pure, Except.pure] at h
        cases h
        intro i hi hj
        cases i with
        | zero => simpa using hy
        | succ i => simpa using ih hys i (by simpa using hi) (by simpa using hj)

/-- **exactly one output object per row that reached the select stage** -/
theorem select_length (one : Row N → R (Row N)) (rs out : List (Val N))
    (h : selectRowsWith one none rs = .ok out) : out.length = rs.length :=
  mapE_ok_length h

/-- **row locality**: output row `i` is the projection of input row `i` and of nothing else —
    replacing every other row leaves it unchanged -/
theorem select_row_local (one : Row N → R (Row N)) (rs rs' out out' : List (Val N))
    (h : selectRowsWith one none rs = .ok out) (h' : selectRowsWith one none rs' = .ok out')
    (i : Nat) (hi : i < rs.length) (hi' : i < rs'.length) (hsame : rs[i] = rs'[i]) :
    out[i]'(by rw [select_length one rs out h]; exact hi) =
      out'[i]'(by rw [select_length one rs' out' h']; exact hi') := by
  have e1 := mapE_ok_get h i hi (by rw [select_length one rs out h]; exact hi)
  have e2 := mapE_ok_get h' i hi' (by rw [select_length one rs' out' h']; exact hi')
  rw [hsame] at e1
  rw [e1] at e2
  exact Except.ok.inj e2

/-- each output row is `SelectExpr` of its input row -/
theorem select_rowwise (one : Row N → R (Row N)) (rows : List (Row N)) (out : List (Val N))
    (h : selectRowsWith one none (rows.map Val.obj) = .ok out) :
    ∀ (i : Nat) (hi : i < rows.length), ∃ row, one rows[i] = .ok row ∧
      out[i]'(by rw [select_length one _ out h]; simpa using hi) = .obj row := by
  intro i hi
  have e := mapE_ok_get h i (by simpa using hi) (by rw [select_length one _ out h]; simpa using hi)
  simp only [List.getElem_map, bind, Except.bind] at e
  split at e
  · cases e
  · rename_i row hrow
    exact ⟨row, hrow, (Except.ok.inj e).symm⟩

/-! ### keys -/

def hasKey (k : String) (l : Row N) : Bool := (lookup? k l).isSome

theorem hasKey_setKey (k k' : String) (v : Val N) (l : Row N) :
    hasKey k' (setKey k v l) = (decide (k' = k) || hasKey k' l) := by
  unfold hasKey
  by_cases h : k' = k
  · subst h; simp
  · simp [lookup?_setKey_other h, h]

theorem lookup?_delKey_same (k : String) (l : Row N) : lookup? k (delKey k l) = none := by
  induction l with
  | nil => rfl
  | cons h t ih =>
    obtain ⟨k', v⟩ := h
    by_cases hk : k' = k <;> simp [delKey, lookup?, hk, ih]

theorem lookup?_delKey_other {k k' : String} (h : k' ≠ k) (l : Row N) :
    lookup? k' (delKey k l) = lookup? k' l := by
  induction l with
  | nil => rfl
  | cons hd t ih =>
    obtain ⟨k1, v⟩ := hd
    by_cases hk : k1 = k
    · subst hk
      have : ¬ k1 = k' := fun e => h e.symm
      simp [delKey, lookup?, ih, this]
    · simp [delKey, lookup?, hk, ih]

theorem lookup?_copyInto (k : String) (dst src : Row N) :
    lookup? k (copyInto dst src) =
      (match lookup? k src.reverse with
       | some v => some v
       | none => lookup? k dst) := by
  unfold copyInto
  induction src generalizing dst with
  | nil => simp [lookup?]
  | cons h t ih =>
    obtain ⟨k', v⟩ := h
    simp only [List.foldl_cons, ih, List.reverse_cons]
    -- lookup in `t.reverse ++ [(k', v)]`
    have happ : ∀ (l : Row N), lookup? k (l ++ [(k', v)]) =
        (match lookup? k l with | some w => some w | none => if k' = k then some v else none) := by
      intro l
      induction l with
      | nil => simp [lookup?]
      | cons a l ihl =>
        obtain ⟨ka, va⟩ := a
        by_cases hka : ka = k <;> simp [lookup?, hka, ihl]
    rw [happ]
    cases hl : lookup? k t.reverse with
    | some w => simp
    | none =>
      by_cases hk : k' = k
      · subst hk; simp
      · have : k ≠ k' := fun e => hk e.symm
        simp [hk, lookup?_setKey_other this]

theorem hasKey_reverse (k : String) (l : Row N) : hasKey k l.reverse = hasKey k l := by
  unfold hasKey
  have : ∀ (l : Row N), (lookup? k l).isSome = l.any (fun p => p.1 == k) := by
    intro l
    induction l with
    | nil => rfl
    | cons a l ih =>
      obtain ⟨ka, va⟩ := a
      by_cases h : ka = k <;> simp [lookup?, h, ih]
  rw [this, this, List.any_reverse]

/-- `SELECT *` copies every source key except the navigation marker -/
theorem hasKey_star (k : String) (acc cur : Row N) :
    hasKey k (copyInto acc (delKey "<-" cur)) = (hasKey k acc || (decide (k ≠ "<-") && hasKey k cur)) := by
  have h1 : hasKey k (copyInto acc (delKey "<-" cur)) =
      (hasKey k (delKey "<-" cur).reverse || hasKey k acc) := by
    unfold hasKey
    rw [lookup?_copyInto]
    cases lookup? k (delKey "<-" cur).reverse <;> simp
  rw [h1, hasKey_reverse]
  by_cases hk : k = "<-"
  · subst hk; simp [hasKey, lookup?_delKey_same]
  · simp [hasKey, lookup?_delKey_other hk, hk, Bool.or_comm]

/-- an item "writes" (its expression evaluates to something other than the omit marker or a fuse) -/
def Writes (env : Env N) (ctx : Ctx N) (cur : Row N) (e : Expr N) : Prop :=
  ∀ x, evalExpr env ctx cur e = .ok x → x ≠ .omit ∧ ∀ fs, x ≠ .fuse fs

/-- the keys a select list names on a row: aliases / column names, and for `*` the source keys -/
def selKeys (cur : Row N) : List (SelItem N) → List String
  | [] => []
  | .star :: rest => ((delKey "<-" cur).map (·.1)) ++ selKeys cur rest
  | .item _ key _ :: rest => key :: selKeys cur rest

theorem mem_keys_iff (k : String) (l : Row N) : k ∈ l.map (·.1) ↔ hasKey k l = true := by
  unfold hasKey
  induction l with
  | nil => simp [lookup?]
  | cons a l ih =>
    obtain ⟨ka, va⟩ := a
    by_cases h : ka = k
    · simp [lookup?, h]
    · have : ¬ k = ka := fun e => h e.symm
      simp [lookup?, h, this, ih]

/-- **the keys of an output row are exactly the select list's aliases / column names (all source
    keys for `*`)**, for select lists whose items produce a value -/
theorem select_keys (env : Env N) (ctx : Ctx N) (cur : Row N) :
    ∀ (sel : List (SelItem N)) (acc out : Row N),
      (∀ e key alias, SelItem.item e key alias ∈ sel → Writes env ctx cur e) →
      evalSel env ctx cur sel acc = .ok out →
      ∀ k, hasKey k out = (hasKey k acc || decide (k ∈ selKeys cur sel)) := by
  intro sel
  induction sel with
  | nil =>
    intro acc out _ h k
    simp only [evalSel] at h
    cases h
    simp [selKeys]
  | cons it rest ih =>
    intro acc out hw h k
    cases it with
    | star =>
      simp only [evalSel] at h
      rw [ih _ out (fun e key alias hm => hw e key alias (by simp [hm])) h k, hasKey_star]
      simp only [selKeys, List.mem_append, mem_keys_iff]
      by_cases hk : k = "<-"
      · subst hk
        simp [hasKey, lookup?_delKey_same]
      · simp [hasKey, lookup?_delKey_other hk, hk, Bool.or_assoc]
    | item e key alias =>
      have hwr := hw e key alias (by simp)
      simp only [evalSel, bind, Except.bind] at h
      split at h
      · cases h
      · rename_i x hx
        obtain ⟨hno, hnf⟩ := hwr x hx
        cases x with
        | «omit» => exact absurd rfl hno
        | fuse fs => exact absurd rfl (hnf fs)
        | v y =>
          simp only [valueOf] at h
          rw [ih _ out (fun e key alias hm => hw e key alias (by simp [hm])) h k, hasKey_setKey]
          simp only [selKeys, List.mem_cons]
          cases hasKey k acc <;> by_cases hk : k = key <;> simp [hk]
        | col p =>
          simp only [] at h
          split at h
          · cases h
          · rw [ih _ out (fun e key alias hm => hw e key alias (by simp [hm])) h k, hasKey_setKey]
            simp only [selKeys, List.mem_cons]
            cases hasKey k acc <;> by_cases hk : k = key <;> simp [hk]
        | neutral s =>
          simp only [valueOf] at h
          rw [ih _ out (fun e key alias hm => hw e key alias (by simp [hm])) h k, hasKey_setKey]
          simp only [selKeys, List.mem_cons]
          cases hasKey k acc <;> by_cases hk : k = key <;> simp [hk]
        | fptr o =>
          cases o <;> simp only [valueOf] at h <;>
            (rw [ih _ out (fun e key alias hm => hw e key alias (by simp [hm])) h k, hasKey_setKey]
             simp only [selKeys, List.mem_cons]
             cases hasKey k acc <;> by_cases hk : k = key <;> simp [hk])


/-! ### values -/

theorem lookup?_star_other (k : String) (acc cur : Row N) (h : hasKey k (delKey "<-" cur) = false) :
    lookup? k (copyInto acc (delKey "<-" cur)) = lookup? k acc := by
  rw [lookup?_copyInto]
  have : hasKey k (delKey "<-" cur).reverse = false := by rw [hasKey_reverse]; exact h
  unfold hasKey at this
  cases hl : lookup? k (delKey "<-" cur).reverse with
  | none => rfl
  | some v => rw [hl] at this; cases this

/-- keys the select list does not name keep whatever they held before (frame) -/
theorem evalSel_frame (env : Env N) (ctx : Ctx N) (cur : Row N) :
    ∀ (sel : List (SelItem N)) (acc out : Row N),
      (∀ e key alias, SelItem.item e key alias ∈ sel → Writes env ctx cur e) →
      evalSel env ctx cur sel acc = .ok out →
      ∀ k, k ∉ selKeys cur sel → lookup? k out = lookup? k acc := by
  intro sel
  induction sel with
  | nil => intro acc out _ h k _; simp only [evalSel] at h; cases h; rfl
  | cons it rest ih =>
    intro acc out hw h k hk
    have hw' : ∀ e key alias, SelItem.item e key alias ∈ rest → Writes env ctx cur e :=
      fun e key alias hm => hw e key alias (by simp [hm])
    cases it with
    | star =>
      simp only [evalSel] at h
      simp only [selKeys, List.mem_append, not_or] at hk
      rw [ih _ out hw' h k hk.2]
      apply lookup?_star_other
      cases hh : hasKey k (delKey "<-" cur) with
      | false => rfl
      | true => exact absurd ((mem_keys_iff k _).mpr hh) hk.1
    | item e key alias =>
      simp only [selKeys, List.mem_cons, not_or] at hk
      have hwr := hw e key alias (by simp)
      simp only [evalSel, bind, Except.bind] at h
      split at h
      · cases h
      · rename_i x hx
        obtain ⟨hno, hnf⟩ := hwr x hx
        have fin : ∀ v, evalSel env ctx cur rest (setKey key v acc) = .ok out → lookup? k out = lookup? k acc := by
          intro v hv
          rw [ih _ out hw' hv k hk.2, lookup?_setKey_other hk.1]
        cases x with
        | «omit» => exact absurd rfl hno
        | fuse fs => exact absurd rfl (hnf fs)
        | v y => exact fin _ (by simpa [valueOf] using h)
        | neutral s => exact fin _ (by simpa [valueOf] using h)
        | fptr o => cases o <;> exact fin _ (by simpa [valueOf] using h)
        | col p =>
          simp only [] at h
          split at h
          · cases h
          · exact fin _ h

/-- **every value equals the meaning of its expression on that row**: the column of an item that
    is not overwritten by a later item holds `ValueOf(Expr(item))` evaluated on this row -/
theorem select_values (env : Env N) (ctx : Ctx N) (cur : Row N) (pre post : List (SelItem N))
    (e : Expr N) (key alias : String) (acc out : Row N)
    (hw : ∀ e' key' alias', SelItem.item e' key' alias' ∈ pre ++ .item e key alias :: post → Writes env ctx cur e')
    (hlast : key ∉ selKeys cur post)
    (h : evalSel env ctx cur (pre ++ .item e key alias :: post) acc = .ok out) :
    ∃ x v, evalExpr env ctx cur e = .ok x ∧ valueOf cur x = .ok v ∧ lookup? key out = some v := by
  induction pre generalizing acc with
  | nil =>
    simp only [List.nil_append] at h hw
    have hwr := hw e key alias (by simp)
    have hw' : ∀ e' key' alias', SelItem.item e' key' alias' ∈ post → Writes env ctx cur e' :=
      fun e' key' alias' hm => hw e' key' alias' (by simp [hm])
    simp only [evalSel, bind, Except.bind] at h
    split at h
    · cases h
    · rename_i x hx
      obtain ⟨hno, hnf⟩ := hwr x hx
      have fin : ∀ v, valueOf cur x = .ok v → evalSel env ctx cur post (setKey key v acc) = .ok out →
          ∃ x v, evalExpr env ctx cur e = .ok x ∧ valueOf cur x = .ok v ∧ lookup? key out = some v := by
        intro v hv hrest
        refine ⟨x, v, hx, hv, ?_⟩
        rw [evalSel_frame env ctx cur post _ out hw' hrest key hlast]
        simp
      cases x with
      | «omit» => exact absurd rfl hno
      | fuse fs => exact absurd rfl (hnf fs)
      | v y => exact fin _ rfl (by simpa [valueOf] using h)
      | neutral s => exact fin _ rfl (by simpa [valueOf] using h)
      | fptr o => cases o <;> exact fin _ rfl (by simpa [valueOf] using h)
      | col p =>
        simp only [] at h
        split at h
        · cases h
        · rename_i v hv
          exact fin v hv h
  | cons it pre ih =>
    have hw' : ∀ e' key' alias', SelItem.item e' key' alias' ∈ pre ++ .item e key alias :: post → Writes env ctx cur e' :=
      fun e' key' alias' hm => hw e' key' alias' (by simp [hm])
    cases it with
    | star =>
      simp only [List.cons_append, evalSel] at h
      exact ih _ hw' h
    | item e0 k0 a0 =>
      have hwr := hw e0 k0 a0 (by simp)
      simp only [List.cons_append, evalSel, bind, Except.bind] at h
      split at h
      · cases h
      · rename_i x hx
        obtain ⟨hno, hnf⟩ := hwr x hx
        cases x with
        | «omit» => exact absurd rfl hno
        | fuse fs => exact absurd rfl (hnf fs)
        | v y => exact ih _ hw' (by simpa [valueOf] using h)
        | neutral s => exact ih _ hw' (by simpa [valueOf] using h)
        | fptr o => cases o <;> exact ih _ hw' (by simpa [valueOf] using h)
        | col p =>
          simp only [] at h
          split at h
          · cases h
          · exact ih _ hw' h

/-- a reference to a missing key yields NULL -/
theorem missing_is_null (env : Env N) (ctx : Ctx N) (hh : ctx.hard = false) (cur : Row N) (k : String)
    (hk : lookup? k cur = none) :
    ∃ x, evalExpr env ctx cur (.col [k]) = .ok x ∧ valueOf cur x = .ok .null := by
  refine ⟨.col [k], by simp [evalExpr, hh], ?_⟩
  simp [valueOf, readPath_single, Val.get, hk]

/-- a binary arithmetic operator with a NULL operand yields NULL -/
theorem binop_null (env : Env N) (ctx : Ctx N) (cur : Row N) (op : BinOp) (a b : Expr N) :
    (∀ x, evalExpr env ctx cur a = .ok x → valueOf cur x = .ok .null →
      ∃ y, evalExpr env ctx cur (.bin op a b) = .ok y ∧ valueOf cur y = .ok .null) ∧
    (∀ x n y, evalExpr env ctx cur a = .ok x → valueOf cur x = .ok (.num n) →
      evalExpr env ctx cur b = .ok y → valueOf cur y = .ok .null →
      ∃ z, evalExpr env ctx cur (.bin op a b) = .ok z ∧ valueOf cur z = .ok .null) := by
  constructor
  · intro x hx hv
    exact ⟨.fptr none, by simp [evalExpr, hx, hv, bind, Except.bind, pure, Except.pure], rfl⟩
  · intro x n y hx hv hy hvy
    exact ⟨.fptr none, by simp [evalExpr, hx, hv, hy, hvy, bind, Except.bind, pure, Except.pure], rfl⟩

/-! ### nothing engine-internal -/

theorem marker_not_named (cur : Row N) (sel : List (SelItem N))
    (hk : ∀ e key alias, SelItem.item e key alias ∈ sel → key ≠ "<-") : "<-" ∉ selKeys cur sel := by
  induction sel with
  | nil => simp [selKeys]
  | cons it rest ih =>
    have ih' := ih (fun e key alias hm' => hk e key alias (by simp [hm']))
    cases it with
    | star =>
      simp only [selKeys, List.mem_append, not_or]
      refine ⟨?_, ih'⟩
      intro hm
      have := (mem_keys_iff "<-" _).mp hm
      simp [hasKey, lookup?_delKey_same] at this
    | item e key alias =>
      simp only [selKeys, List.mem_cons, not_or]
      exact ⟨fun e' => hk e key alias (by simp) e'.symm, ih'⟩

/-- **no engine-internal key**: the navigation marker `<-` never reaches an output row (star
    projections drop it; an item can only produce it through an explicit alias `<-`) -/
theorem select_no_marker (env : Env N) (ctx : Ctx N) (cur : Row N) (sel : List (SelItem N)) (out : Row N)
    (hw : ∀ e key alias, SelItem.item e key alias ∈ sel → Writes env ctx cur e)
    (hk : ∀ e key alias, SelItem.item e key alias ∈ sel → key ≠ "<-")
    (h : evalSel env ctx cur sel [] = .ok out) : lookup? "<-" out = none := by
  rw [evalSel_frame env ctx cur sel [] out hw h "<-" (marker_not_named cur sel hk)]
  rfl

/-- **plain values only**: whatever `Expr` returns (column reference, literal wrapper, `*float64`),
    the value `SelectExpr` stores is obtained through `ValueOf` and is a plain JSON-like value — in the
    model this is the typing of `Row N`; the content is that `ValueOf` resolves every wrapper -/
theorem select_plain (cur : Row N) (x : IVal N) (hx : x ≠ .omit) :
    (∃ v : Val N, valueOf cur x = .ok v) ∨ (∃ e, valueOf cur x = .error e ∧ ∃ p, x = .col p) := by
  cases x with
  | v y => exact .inl ⟨y, rfl⟩
  | neutral s => exact .inl ⟨.str s, rfl⟩
  | fptr o => cases o <;> exact .inl ⟨_, rfl⟩
  | fuse fs => exact .inl ⟨.obj fs, rfl⟩
  | «omit» => exact absurd rfl hx
  | col p =>
    simp only [valueOf]
    cases h : readPath p (.obj cur) with
    | ok v => exact .inl ⟨v, rfl⟩
    | error e => exact .inr ⟨e, rfl, p, rfl⟩

/-- the hypotheses are satisfiable: a two-item list over a concrete row -/
example : evalSel (N := Int) ⟨.none, none, none⟩ ⟨[], false, false, [], 0⟩ [("a", .num 2)]
    [.item (.col ["a"]) "a" "", .item (.bin .plus (.col ["a"]) (.num 10)) "c" "c"] []
    = .ok [("a", .num 2), ("c", .num 12)] := by decide

end Genql.C02
