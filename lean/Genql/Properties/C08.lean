/-
  Property C08 — a multi-dimensional FROM applies the query inside every inner array.

  `levelLoop`/`execLevel` are the `[]any` case of `exec()` together with `CopyQuery`: every inner
  array is executed with the same WHERE (`wh`) and the same rest of the pipeline (`post`).
-/
import Genql.Properties.C01
set_option linter.unusedSectionVars false
set_option linter.unusedVariables false
set_option linter.unusedSimpArgs false
namespace Genql.C08
open Genql
variable {N : Type} [Num N] [LawfulNum N]

/-- the inner execution of one inner array, as one element of the outer result -/
def innerExec (wh : List (Val N) → Row N → R Bool)
    (post : List (Val N) → List (Val N) → R (List (Val N))) (ys : List (Val N)) : R (Val N) :=
  match execLevel wh post ys with
  | .ok r => .ok (.arr r)
  | .error e => .error e

theorem levelElem_arr (wh : List (Val N) → Row N → R Bool)
    (post : List (Val N) → List (Val N) → R (List (Val N))) (src ys : List (Val N)) :
    levelElem wh post src (.arr ys) = (innerExec wh post ys).map some := by
  simp only [levelElem, innerExec, execLevel, bind, Except.bind, pure, Except.pure, Except.map]
  cases levelLoop wh post ys ys with
  | error e => rfl
  | ok kept =>
    simp only []
    cases post ys kept <;> rfl

/-- **nested execution**: over an array of arrays the filter loop yields the array of the inner
    executions (same nesting); each inner result is what the same WHERE and the same pipeline return
    when run directly on that inner array -/
theorem nested_exec (wh : List (Val N) → Row N → R Bool)
    (post : List (Val N) → List (Val N) → R (List (Val N))) (src : List (Val N))
    (yss : List (List (Val N))) :
    levelLoop wh post src (yss.map Val.arr) = mapE (innerExec wh post) yss := by
  induction yss with
  | nil => rfl
  | cons ys yss ih =>
    simp only [List.map_cons, levelLoop, levelElem_arr, ih, mapE, bind, Except.bind, pure, Except.pure, Except.map]
    cases innerExec wh post ys with
    | error e => rfl
    | ok v =>
      simp only []

/-- on a flat array of objects the loop is the ordinary WHERE filter (base case) -/
theorem flat_is_base_case (wh : List (Val N) → Row N → R Bool)
    (post : List (Val N) → List (Val N) → R (List (Val N))) (src : List (Val N))
    (rows : List (Row N)) (f : Row N → Bool) (h : ∀ r ∈ rows, wh src r = .ok (f r)) :
    levelLoop wh post src (rows.map Val.obj) = .ok ((rows.filter f).map Val.obj) :=
  Genql.C01.levelLoop_flat wh post src rows f h

/-- `post` leaves inner results alone (what a WHERE + select-list query does with arrays:
    `ExecSelect` passes them through; no DISTINCT / ORDER BY / LIMIT) -/
def PassesArrays (post : List (Val N) → List (Val N) → R (List (Val N))) : Prop :=
  ∀ src (kept : List (Val N)), (∀ x ∈ kept, ∃ ys, x = Val.arr ys) → post src kept = .ok kept

/-- the textbook reading at any depth: depth 0 = the flat pipeline, depth d+1 = map over the
    elements -/
def nestedSpec (flat : List (Val N) → R (List (Val N))) : Nat → List (Val N) → R (List (Val N))
  | 0, xs => flat xs
  | d + 1, xs => mapE (fun x => match x with
      | .arr ys => (match nestedSpec flat d ys with | .ok r => .ok (.arr r) | .error e => .error e)
      | _ => .error .error) xs

/-- `xs` is an array of … of arrays (d levels) of objects -/
def Uniform : Nat → List (Val N) → Prop
  | 0, xs => ∀ x ∈ xs, ∃ fs, x = .obj fs
  | d + 1, xs => ∀ x ∈ xs, ∃ ys, x = .arr ys ∧ Uniform d ys

theorem all_arr_of_uniform {d : Nat} {xs : List (Val N)} (h : Uniform (d + 1) xs) :
    ∃ yss : List (List (Val N)), xs = yss.map Val.arr ∧ ∀ ys ∈ yss, Uniform d ys := by
  induction xs with
  | nil => exact ⟨[], rfl, fun _ h => by cases h⟩
  | cons x xs ih =>
    obtain ⟨ys, rfl, hy⟩ := h x (by simp)
    obtain ⟨yss, rfl, hall⟩ := ih (fun z hz => h z (by simp [hz]))
    exact ⟨ys :: yss, rfl, fun z hz => by
      rcases List.mem_cons.mp hz with rfl | hz
      · exact hy
      · exact hall z hz⟩

theorem mapE_innerExec_arrays (wh : List (Val N) → Row N → R Bool)
    (post : List (Val N) → List (Val N) → R (List (Val N))) (yss : List (List (Val N))) (rs : List (Val N))
    (h : mapE (innerExec wh post) yss = .ok rs) : ∀ x ∈ rs, ∃ ys, x = Val.arr ys := by
  induction yss generalizing rs with
  | nil => simp [mapE] at h; subst h; intro x hx; cases hx
  | cons ys yss ih =>
    simp only [mapE, bind, Except.bind] at h
    split at h
    · cases h
    · rename_i y hy
      split at h
      · cases h
      · rename_i rs' hrs'
        simp only [pure, Except.pure] at h
        cases h
        intro x hx
        rcases List.mem_cons.mp hx with rfl | hx
        · simp only [innerExec] at hy
          split at hy
          · cases hy; exact ⟨_, rfl⟩
          · cases hy
        · exact ih rs' hrs' x hx

/-- **any depth**: on a source of uniform depth `d` the engine computes the depth-`d` map of the
    flat pipeline — the result has the same nesting as the source -/
theorem nested_exec_depth (wh : List (Val N) → Row N → R Bool)
    (post : List (Val N) → List (Val N) → R (List (Val N))) (hp : PassesArrays post) :
    ∀ (d : Nat) (xs : List (Val N)), Uniform d xs →
      execLevel wh post xs = nestedSpec (execLevel wh post) d xs := by
  intro d
  induction d with
  | zero => intro xs _; rfl
  | succ d ih =>
    intro xs hu
    obtain ⟨yss, rfl, hall⟩ := all_arr_of_uniform hu
    have hmap : mapE (innerExec wh post) yss =
        nestedSpec (execLevel wh post) (d + 1) (yss.map Val.arr) := by
      clear hu
      induction yss with
      | nil => rfl
      | cons ys yss ihy =>
        have h1 := ih ys (hall ys (by simp))
        have h2 := ihy (fun z hz => hall z (by simp [hz]))
        simp only [nestedSpec] at h2 ⊢
        simp only [List.map_cons, mapE, innerExec, h1, h2]
    rw [← hmap]
    simp only [execLevel, nested_exec, bind, Except.bind]
    cases hm : mapE (innerExec wh post) yss with
    | error e => rfl
    | ok rs => exact hp _ rs (mapE_innerExec_arrays wh post yss rs hm)

/-! ### flattening first (`mix=>`) gives the concatenation of the inner results -/

/-- the flat pipeline of a WHERE + select-list query on one array of objects -/
def flatExec (p : Row N → R Bool) (one : Row N → R (Row N)) (rows : List (Row N)) : R (List (Val N)) := do
  let kept ← filterLoop p rows
  mapE (fun r => do let o ← one r; pure (Val.obj o)) kept

theorem filterLoop_append {α : Type} (p : α → R Bool) (xs ys : List α) :
    filterLoop p (xs ++ ys) = (do
      let a ← filterLoop p xs
      let b ← filterLoop p ys
      pure (a ++ b)) := by
  induction xs with
  | nil =>
    simp only [List.nil_append, filterLoop, bind, Except.bind, pure, Except.pure]
    cases filterLoop p ys <;> rfl
  | cons x xs ih =>
    simp only [List.cons_append, filterLoop, ih, bind, Except.bind, pure, Except.pure]
    cases p x with
    | error e => rfl
    | ok b =>
      simp only []
      cases filterLoop p xs with
      | error e => rfl
      | ok a =>
        simp only []
        cases filterLoop p ys with
        | error e => rfl
        | ok c => cases b <;> rfl

theorem mapE_append {ε α β : Type} (f : α → Except ε β) (xs ys : List α) :
    mapE f (xs ++ ys) = (do
      let a ← mapE f xs
      let b ← mapE f ys
      pure (a ++ b)) := by
  induction xs with
  | nil =>
    simp only [List.nil_append, mapE, bind, Except.bind, pure, Except.pure]
    cases mapE f ys <;> rfl
  | cons x xs ih =>
    simp only [List.cons_append, mapE, ih, bind, Except.bind, pure, Except.pure]
    cases f x with
    | error e => rfl
    | ok b =>
      simp only []
      cases mapE f xs with
      | error e => rfl
      | ok a =>
        simp only []
        cases mapE f ys <;> rfl

/-- **`mix=>` then query = concatenation of the per-array results** (when every inner execution
    succeeds): the flat pipeline distributes over concatenation of sources -/
theorem mix_concat (p : Row N → R Bool) (one : Row N → R (Row N)) (xs ys : List (Row N))
    (a b : List (Val N)) (ha : flatExec p one xs = .ok a) (hb : flatExec p one ys = .ok b) :
    flatExec p one (xs ++ ys) = .ok (a ++ b) := by
  simp only [flatExec, bind, Except.bind] at ha hb ⊢
  rw [filterLoop_append]
  cases hx : filterLoop p xs with
  | error e => simp [hx] at ha
  | ok kx =>
    cases hy : filterLoop p ys with
    | error e => simp [hy] at hb
    | ok ky =>
      simp only [hx, hy, bind, Except.bind, pure, Except.pure] at ha hb ⊢
      rw [mapE_append, ha, hb]
      rfl

theorem mix_concat_all (p : Row N → R Bool) (one : Row N → R (Row N)) :
    ∀ (srcs : List (List (Row N))) (outs : List (List (Val N))),
      srcs.length = outs.length →
      (∀ i (h1 : i < srcs.length) (h2 : i < outs.length), flatExec p one srcs[i] = .ok outs[i]) →
      flatExec p one srcs.flatten = .ok outs.flatten := by
  intro srcs
  induction srcs with
  | nil =>
    intro outs hl _
    cases outs with
    | nil => rfl
    | cons o os => simp at hl
  | cons s srcs ih =>
    intro outs hl h
    cases outs with
    | nil => simp at hl
    | cons o os =>
      simp only [List.flatten_cons]
      apply mix_concat p one s srcs.flatten o os.flatten
      · exact h 0 (by simp) (by simp)
      · apply ih os (by simpa using hl)
        intro i h1 h2
        exact h (i + 1) (by simpa using h1) (by simpa using h2)

end Genql.C08
