/-
  C13 — concurrent queries: no data race on the process-wide selector cache, no cross-talk, no
  deadlock, for ALL interleavings.
-/
import Genql.Model.Conc

namespace Genql.C13
open Genql.Conc

/-! ### The invariant -/

/-- "The holder of `m` is the only thread inside a critical section of `m`", together with
    well-lockedness of every thread's remaining program. -/
structure LockInv (guard : String → Option String) (s : St) : Prop where
  wl : ∀ t, WLfrom guard (s.held t) (s.prog t) = true
  own : ∀ t m, m ∈ s.held t ↔ s.holder m = some t

theorem mem_filter_ne {l : List String} {m k : String} :
    k ∈ l.filter (· != m) ↔ k ∈ l ∧ k ≠ m := by
  simp [List.mem_filter]

theorem inv_start {guard : String → Option String} {prog : Nat → List Instr}
    (h : ∀ t, WL guard (prog t) = true) : LockInv guard (start prog) :=
  ⟨fun t => h t, fun t m => by simp [start]⟩

theorem inv_step {guard : String → Option String} {s s' : St} {t : Nat}
    (h : LockInv guard s) (st : step s t = some s') : LockInv guard s' := by
  have hw := h.wl t
  unfold step at st
  split at st
  · cases st
  · -- lock
    rename_i m p hp
    split at st
    · rename_i hh
      cases st
      rw [hp] at hw
      simp only [WLfrom, Bool.and_eq_true, Bool.not_eq_true', List.contains_eq_mem,
        decide_eq_false_iff_not] at hw
      refine ⟨fun u => ?_, fun u k => ?_⟩
      · by_cases hu : u = t
        · subst hu; simpa [upd] using hw.2
        · simpa [upd, hu] using h.wl u
      · by_cases hu : u = t <;> by_cases hk : k = m
        · subst hu; subst hk; simp [upd, updS]
        · subst hu; simp [upd, updS, hk, h.own u k]
        · subst hk
          have hne : ¬ t = u := fun e => hu e.symm
          have : k ∉ s.held u := fun c => by
            have := (h.own u k).1 c; rw [hh] at this; cases this
          simp [upd, updS, hu, this, hne]
        · simp [upd, updS, hu, hk, h.own u k]
    · cases st
  · -- unlock
    rename_i m p hp
    cases st
    rw [hp] at hw
    simp only [WLfrom, Bool.and_eq_true, List.contains_eq_mem, decide_eq_true_eq] at hw
    have hown : s.holder m = some t := (h.own t m).1 hw.1
    refine ⟨fun u => ?_, fun u k => ?_⟩
    · by_cases hu : u = t
      · subst hu; simpa [upd] using hw.2
      · simpa [upd, hu] using h.wl u
    · by_cases hu : u = t <;> by_cases hk : k = m
      · subst hu; subst hk; simp [upd, updS]
      · subst hu; simp only [upd, updS, hk, if_true, if_false, mem_filter_ne]
        simp [hk, h.own u k]
      · subst hk
        have : k ∉ s.held u := fun c => by
          have := (h.own u k).1 c; rw [hown] at this; exact hu (Option.some.inj this).symm
        simp [upd, updS, hu, this]
      · simp [upd, updS, hu, hk, h.own u k]
  · -- read
    rename_i x p hp
    cases st
    rw [hp] at hw
    simp only [WLfrom, Bool.and_eq_true] at hw
    refine ⟨fun u => ?_, fun u k => h.own u k⟩
    by_cases hu : u = t
    · subst hu; simpa [upd] using hw.2
    · simpa [upd, hu] using h.wl u
  · -- write
    rename_i x p hp
    cases st
    rw [hp] at hw
    simp only [WLfrom, Bool.and_eq_true] at hw
    refine ⟨fun u => ?_, fun u k => h.own u k⟩
    by_cases hu : u = t
    · subst hu; simpa [upd] using hw.2
    · simpa [upd, hu] using h.wl u

theorem inv_reach {guard : String → Option String} {init s : St}
    (h0 : LockInv guard init) (r : Reach init s) : LockInv guard s := by
  induction r with
  | refl => exact h0
  | step _ st ih => exact inv_step ih st

/-- Every `run` of a schedule is a reachable state (and conversely every reachable state is the
    `run` of some schedule): the two presentations of "all interleavings" agree. -/
theorem run_reach (init : St) : ∀ (sched : List Nat) (s : St), Reach init s → Reach init (run s sched)
  | [], _, r => r
  | t :: ts, s, r => by
    unfold run
    split
    · rename_i s' hs; exact run_reach init ts s' (.step r hs)
    · exact run_reach init ts s r

theorem run_append (s : St) (a b : List Nat) : run s (a ++ b) = run (run s a) b := by
  induction a generalizing s with
  | nil => rfl
  | cons t ts ih =>
    simp only [List.cons_append, run]
    split <;> exact ih _

theorem reach_run {init s : St} (r : Reach init s) : ∃ sched, run init sched = s := by
  induction r with
  | refl => exact ⟨[], rfl⟩
  | step _ st ih =>
    rename_i s1 s2 t _
    obtain ⟨sched, hs⟩ := ih
    refine ⟨sched ++ [t], ?_⟩
    rw [run_append, hs]
    simp [run, st]

/-! ### Consequences of the invariant -/

theorem access_needs_guard {guard : String → Option String} {s : St} (h : LockInv guard s)
    {t : Nat} {x m : String} {w : Bool} (ha : AtAccess s t x w) (hg : guard x = some m) :
    s.holder m = some t := by
  obtain ⟨p, hp⟩ := ha
  have hw := h.wl t
  rw [hp] at hw
  have : guardHeld guard (s.held t) x = true := by
    cases w <;> simp [WLfrom] at hw <;> exact hw.1
  simp [guardHeld, hg] at this
  exact (h.own t m).1 this

theorem inv_no_race {guard : String → Option String} {s : St} (h : LockInv guard s) :
    ¬ Race guard s := by
  rintro ⟨t, u, x, w1, w2, hne, hg, ht, hu, _⟩
  obtain ⟨m, hm⟩ := Option.isSome_iff_exists.1 hg
  have a := access_needs_guard h ht hm
  have b := access_needs_guard h hu hm
  exact hne (Option.some.inj (a.symm.trans b))

/-- **Data-race freedom.**  If every thread is well locked then no interleaving reaches a state
    in which two different threads are both about to access the same guarded location, one of
    them writing. -/
theorem well_locked_race_free (guard : String → Option String) (prog : Nat → List Instr)
    (hp : ∀ t, WL guard (prog t) = true) :
    ∀ s, Reach (start prog) s → ¬ Race guard s :=
  fun _ r => inv_no_race (inv_reach (inv_start hp) r)

/-- The same statement for schedules. -/
theorem well_locked_race_free_run (guard : String → Option String) (prog : Nat → List Instr)
    (hp : ∀ t, WL guard (prog t) = true) (sched : List Nat) :
    ¬ Race guard (run (start prog) sched) :=
  well_locked_race_free guard prog hp _ (run_reach _ sched _ .refl)

/-- **Mutual exclusion**: two threads inside a critical section of the same mutex are the same
    thread, and the mutex's holder is that thread. -/
theorem holder_only_thread_inside (guard : String → Option String) (prog : Nat → List Instr)
    (hp : ∀ t, WL guard (prog t) = true) {s : St} (r : Reach (start prog) s) (m : String) :
    (∀ t, m ∈ s.held t ↔ s.holder m = some t) ∧
    (∀ t u, m ∈ s.held t → m ∈ s.held u → t = u) := by
  have h := inv_reach (inv_start hp) r
  refine ⟨fun t => h.own t m, fun t u a b => ?_⟩
  have a' := (h.own t m).1 a
  have b' := (h.own u m).1 b
  exact Option.some.inj (a'.symm.trans b')

/-- No `fatal error: sync: unlock of unlocked mutex`: a thread about to `unlock m` holds `m`. -/
theorem unlock_only_by_holder (guard : String → Option String) (prog : Nat → List Instr)
    (hp : ∀ t, WL guard (prog t) = true) {s : St} (r : Reach (start prog) s)
    {t : Nat} {m : String} {p : List Instr} (hu : s.prog t = .unlock m :: p) :
    s.holder m = some t := by
  have h := inv_reach (inv_start hp) r
  have hw := h.wl t
  rw [hu] at hw
  simp only [WLfrom, Bool.and_eq_true, List.contains_eq_mem, decide_eq_true_eq] at hw
  exact (h.own t m).1 hw.1

/-- When all threads have finished every mutex is free. -/
theorem finished_all_released (guard : String → Option String) (prog : Nat → List Instr)
    (hp : ∀ t, WL guard (prog t) = true) {s : St} (r : Reach (start prog) s)
    (hf : Finished s) : ∀ m, s.holder m = none := by
  have h := inv_reach (inv_start hp) r
  intro m
  cases hh : s.holder m with
  | none => rfl
  | some t =>
    have hm := (h.own t m).2 hh
    have hw := h.wl t
    rw [hf t] at hw
    simp [WLfrom] at hw
    rw [hw] at hm; cases hm

/-! ### Deadlock freedom with a single mutex -/

theorem single_reach {m0 : String} {init s : St} (h0 : ∀ t, SingleLock m0 (init.prog t))
    (r : Reach init s) : ∀ t, SingleLock m0 (s.prog t) := by
  induction r with
  | refl => exact h0
  | step _ st ih =>
    rename_i s1 s2 t _
    intro u
    have key : ∀ i p, s1.prog t = i :: p → SingleLock m0 (upd s1.prog t p u) := by
      intro i p hp m hm
      by_cases hu : u = t
      · subst hu
        simp only [upd, if_true] at hm
        exact ih u m (by rw [hp]; exact List.mem_cons_of_mem _ hm)
      · simp only [upd, hu, if_false] at hm
        exact ih u m hm
    unfold step at st
    split at st
    · cases st
    · rename_i m p hp
      split at st
      · cases st; exact key _ _ hp
      · cases st
    · rename_i m p hp; cases st; exact key _ _ hp
    · rename_i x p hp; cases st; exact key _ _ hp
    · rename_i x p hp; cases st; exact key _ _ hp

/-- A thread whose next instruction is not a `lock` can always take its step. -/
theorem enabled_of_not_lock {s : St} {t : Nat} {i : Instr} {p : List Instr}
    (hp : s.prog t = i :: p) (hi : ∀ m, i ≠ .lock m) : ∃ s', step s t = some s' := by
  unfold step
  rw [hp]
  cases i with
  | lock m => exact absurd rfl (hi m)
  | unlock m => exact ⟨_, rfl⟩
  | read x => exact ⟨_, rfl⟩
  | write x => exact ⟨_, rfl⟩

/-- **No deadlock.**  With a single mutex and well-locked threads, in every reachable state
    either every thread has finished or some thread is enabled. -/
theorem no_deadlock_single_lock (guard : String → Option String) (m0 : String)
    (prog : Nat → List Instr) (hp : ∀ t, WL guard (prog t) = true)
    (h1 : ∀ t, SingleLock m0 (prog t)) :
    ∀ s, Reach (start prog) s → Finished s ∨ ∃ t s', step s t = some s' := by
  intro s r
  have h := inv_reach (inv_start hp) r
  have hs := single_reach (init := start prog) h1 r
  by_cases hf : Finished s
  · exact Or.inl hf
  · refine Or.inr ?_
    have ⟨t, ht⟩ : ∃ t, s.prog t ≠ [] := by
      apply Classical.byContradiction
      intro c
      exact hf (fun t => Classical.byContradiction fun c' => c ⟨t, c'⟩)
    cases hpt : s.prog t with
    | nil => exact absurd hpt ht
    | cons i p =>
      by_cases hi : ∀ m, i ≠ .lock m
      · exact ⟨t, enabled_of_not_lock hpt hi⟩
      · have ⟨m, hm⟩ : ∃ m, i = .lock m := by
          cases i with
          | lock m => exact ⟨m, rfl⟩
          | unlock m => exact absurd (fun _ => Instr.noConfusion) hi
          | read x => exact absurd (fun _ => Instr.noConfusion) hi
          | write x => exact absurd (fun _ => Instr.noConfusion) hi
        subst hm
        have hmm : m = m0 := hs t m (by rw [hpt]; exact List.mem_cons_self)
        subst hmm
        cases hh : s.holder m with
        | none => exact ⟨t, by unfold step; rw [hpt]; simp only [hh]; exact ⟨_, rfl⟩⟩
        | some u =>
          -- the holder `u` is inside its critical section; its next instruction is not a lock
          have hmu : m ∈ s.held u := (h.own u m).2 hh
          have hwu := h.wl u
          cases hpu : s.prog u with
          | nil =>
            rw [hpu] at hwu
            simp [WLfrom] at hwu
            rw [hwu] at hmu; cases hmu
          | cons j q =>
            refine ⟨u, enabled_of_not_lock hpu ?_⟩
            intro m' hj
            subst hj
            have : m' = m := hs u m' (by rw [hpu]; exact List.mem_cons_self)
            subst this
            rw [hpu] at hwu
            simp [WLfrom] at hwu
            exact hwu.1 hmu

/-! ### The selector cache: every entry is `parse` of its key; no cross-talk -/

section Cache
variable {D P R : Type}

theorem get_put_same (k : String) (v : P) : ∀ c : Cache P, (Cache.put k v c).get k = some v
  | [] => by simp [Cache.put, Cache.get]
  | (k', v') :: rest => by
    by_cases e : k' = k
    · simp [Cache.put, Cache.get, e]
    · simp [Cache.put, Cache.get, e, get_put_same k v rest]

theorem get_put_other {k k' : String} (v : P) (hne : k' ≠ k) :
    ∀ c : Cache P, (Cache.put k v c).get k' = c.get k'
  | [] => by simp [Cache.put, Cache.get, hne.symm]
  | (k1, v1) :: rest => by
    by_cases e : k1 = k
    · subst e
      simp [Cache.put, Cache.get, hne.symm]
    · by_cases e' : k1 = k'
      · subst e'
        simp [Cache.put, Cache.get, hne]
      · simp [Cache.put, Cache.get, e, e', get_put_other v hne rest]

/-- The cache is a sub-graph of `parse`. -/
def ParseGraph (parse : String → Option P) (c : Cache P) : Prop :=
  ∀ k v, c.get k = some v → parse k = some v

/-- `t` is between `mut.Lock()` and `mut.Unlock()`. -/
def Inside : Pc P R → Prop
  | .locked | .miss | .hit | .failUnlock | .gotUnlock _ => True
  | _ => False

/-- Invariant of the `ExecReader` protocol. -/
structure CInv (parse : String → Option P) (eval : P → D → R) (init s : CSt D P R) : Prop where
  graph : ParseGraph parse s.cache
  same : ∀ t, (s.call t).doc = (init.call t).doc ∧ (s.call t).key = (init.call t).key
  inside : ∀ t, Inside (s.call t).pc ↔ s.mutHolder = some t
  hit : ∀ t, (s.call t).pc = .hit → ∃ v, s.cache.get (s.call t).key = some v
  miss : ∀ t, (s.call t).pc = .miss → s.cache.get (s.call t).key = none
  fail : ∀ t, (s.call t).pc = .failUnlock → parse (s.call t).key = none
  got : ∀ t p, ((s.call t).pc = .gotUnlock p ∨ (s.call t).pc = .evalNext p) →
    parse (s.call t).key = some p
  done : ∀ t r, (s.call t).pc = .done r → r = alone parse eval (s.call t).doc (s.call t).key

/-- A legal initial state: any cache that is a sub-graph of `parse` (e.g. empty, or whatever
    earlier queries left there), nobody holds `mut`, every call is at its first instruction. -/
structure CInit (parse : String → Option P) (init : CSt D P R) : Prop where
  graph : ParseGraph parse init.cache
  free : init.mutHolder = none
  fresh : ∀ t, (init.call t).pc = .start

theorem cinv_init {parse : String → Option P} {eval : P → D → R} {init : CSt D P R}
    (h : CInit parse init) : CInv parse eval init init where
  graph := h.graph
  same := fun _ => ⟨rfl, rfl⟩
  inside := fun t => by simp [h.fresh t, h.free, Inside]
  hit := fun t c => by simp [h.fresh t] at c
  miss := fun t c => by simp [h.fresh t] at c
  fail := fun t c => by simp [h.fresh t] at c
  got := fun t p c => by simp [h.fresh t] at c
  done := fun t r c => by simp [h.fresh t] at c


theorem upd_same {β : Type} (f : Nat → β) (t : Nat) (b : β) : upd f t b t = b := by simp [upd]
theorem upd_other {β : Type} (f : Nat → β) {t u : Nat} (b : β) (h : u ≠ t) : upd f t b u = f u := by
  simp [upd, h]

/-- Generic re-establishment of the invariant after call `t` moves to `pc'`. -/
theorem cinv_goto {parse : String → Option P} {eval : P → D → R} {init s : CSt D P R}
    (h : CInv parse eval init s) (t : Nat) (pc' : Pc P R) (mh' : Option Nat) (cache' : Cache P)
    (hgraph : ParseGraph parse cache')
    (hins_t : Inside pc' ↔ mh' = some t)
    (hins_u : ∀ u, u ≠ t → (Inside (s.call u).pc ↔ mh' = some u))
    (hhit_t : pc' = .hit → ∃ v, cache'.get (s.call t).key = some v)
    (hhit_u : ∀ u, u ≠ t → (s.call u).pc = .hit → ∃ v, cache'.get (s.call u).key = some v)
    (hmiss_t : pc' = .miss → cache'.get (s.call t).key = none)
    (hmiss_u : ∀ u, u ≠ t → (s.call u).pc = .miss → cache'.get (s.call u).key = none)
    (hfail_t : pc' = .failUnlock → parse (s.call t).key = none)
    (hgot_t : ∀ p, (pc' = .gotUnlock p ∨ pc' = .evalNext p) → parse (s.call t).key = some p)
    (hdone_t : ∀ r, pc' = .done r → r = alone parse eval (s.call t).doc (s.call t).key) :
    CInv parse eval init ⟨mh', cache', upd s.call t { s.call t with pc := pc' }⟩ where
  graph := hgraph
  same := fun u => by
    by_cases hu : u = t
    · subst hu; simpa [upd_same] using h.same u
    · simpa [upd_other _ _ hu] using h.same u
  inside := fun u => by
    by_cases hu : u = t
    · subst hu; simpa [upd_same] using hins_t
    · simpa [upd_other _ _ hu] using hins_u u hu
  hit := fun u => by
    by_cases hu : u = t
    · subst hu; simpa [upd_same] using hhit_t
    · simpa [upd_other _ _ hu] using hhit_u u hu
  miss := fun u => by
    by_cases hu : u = t
    · subst hu; simpa [upd_same] using hmiss_t
    · simpa [upd_other _ _ hu] using hmiss_u u hu
  fail := fun u => by
    by_cases hu : u = t
    · subst hu; simpa [upd_same] using hfail_t
    · simpa [upd_other _ _ hu] using h.fail u
  got := fun u p => by
    by_cases hu : u = t
    · subst hu; simpa [upd_same] using hgot_t p
    · simpa [upd_other _ _ hu] using h.got u p
  done := fun u r => by
    by_cases hu : u = t
    · subst hu; simpa [upd_same] using hdone_t r
    · simpa [upd_other _ _ hu] using h.done u r

/-- While `t` holds `mut`, or while nobody does, every other call is outside. -/
theorem others_outside {parse : String → Option P} {eval : P → D → R} {init s : CSt D P R}
    (h : CInv parse eval init s) {t : Nat} (hm : s.mutHolder = some t ∨ s.mutHolder = none)
    (u : Nat) (hu : u ≠ t) : ¬ Inside (s.call u).pc := by
  intro c
  have := (h.inside u).1 c
  cases hm with
  | inl a => rw [a] at this; exact hu (Option.some.inj this).symm
  | inr a => rw [a] at this; cases this

theorem graph_put {parse : String → Option P} {c : Cache P} (hg : ParseGraph parse c)
    {k : String} {p : P} (hp : parse k = some p) : ParseGraph parse (c.put k p) := by
  intro k' v hv
  by_cases e : k' = k
  · subst e; rw [get_put_same] at hv; cases hv; exact hp
  · rw [get_put_other _ e] at hv; exact hg k' v hv


theorem cinv_step {parse : String → Option P} {eval : P → D → R} {init s s' : CSt D P R} {t : Nat}
    (h : CInv parse eval init s) (st : cstep parse eval s t = some s') :
    CInv parse eval init s' := by
  have hin := h.inside t
  unfold cstep at st
  simp only at st
  split at st
  · -- start: Lock
    rename_i hpc
    split at st
    · rename_i hm
      cases st
      have out := others_outside h (t := t) (Or.inr hm)
      refine cinv_goto h t .locked (some t) s.cache h.graph (by simp [Inside]) ?_ (by simp) ?_
        (by simp) ?_ (by simp) (by simp) (by simp)
      · intro u hu
        have hne : ¬ t = u := fun e => hu e.symm
        simp [out u hu, hne]
      · intro u hu c; exact absurd (by rw [c]; trivial) (out u hu)
      · intro u hu c; exact absurd (by rw [c]; trivial) (out u hu)
    · cases st
  · -- locked: test `cache[selector]`
    rename_i hpc
    have hm : s.mutHolder = some t := hin.1 (by rw [hpc]; trivial)
    have out := others_outside h (t := t) (Or.inl hm)
    split at st
    · rename_i hget
      cases st
      refine cinv_goto h t .miss s.mutHolder s.cache h.graph (by simp [Inside, hm]) ?_ (by simp) ?_
        (fun _ => hget) ?_ (by simp) (by simp) (by simp)
      · intro u hu; exact h.inside u
      · intro u hu c; exact absurd (by rw [c]; trivial) (out u hu)
      · intro u hu c; exact absurd (by rw [c]; trivial) (out u hu)
    · rename_i v hget
      cases st
      refine cinv_goto h t .hit s.mutHolder s.cache h.graph (by simp [Inside, hm]) ?_
        (fun _ => ⟨v, hget⟩) ?_ (by simp) ?_ (by simp) (by simp) (by simp)
      · intro u hu; exact h.inside u
      · intro u hu c; exact absurd (by rw [c]; trivial) (out u hu)
      · intro u hu c; exact absurd (by rw [c]; trivial) (out u hu)
  · -- miss: parse, store
    rename_i hpc
    have hm : s.mutHolder = some t := hin.1 (by rw [hpc]; trivial)
    have out := others_outside h (t := t) (Or.inl hm)
    split at st
    · rename_i hparse
      cases st
      refine cinv_goto h t .failUnlock s.mutHolder s.cache h.graph (by simp [Inside, hm]) ?_
        (by simp) ?_ (by simp) ?_ (fun _ => hparse) (by simp) (by simp)
      · intro u hu; exact h.inside u
      · intro u hu c; exact absurd (by rw [c]; trivial) (out u hu)
      · intro u hu c; exact absurd (by rw [c]; trivial) (out u hu)
    · rename_i p hparse
      cases st
      refine cinv_goto h t .hit s.mutHolder _ (graph_put h.graph hparse) (by simp [Inside, hm]) ?_
        (fun _ => ⟨p, get_put_same _ _ _⟩) ?_ (by simp) ?_ (by simp) (by simp) (by simp)
      · intro u hu; exact h.inside u
      · intro u hu c; exact absurd (by rw [c]; trivial) (out u hu)
      · intro u hu c; exact absurd (by rw [c]; trivial) (out u hu)
  · -- hit: `parsed := cache[selector]`
    rename_i hpc
    have hm : s.mutHolder = some t := hin.1 (by rw [hpc]; trivial)
    have out := others_outside h (t := t) (Or.inl hm)
    split at st
    · rename_i p hget
      cases st
      refine cinv_goto h t (.gotUnlock p) s.mutHolder s.cache h.graph (by simp [Inside, hm]) ?_
        (by simp) ?_ (by simp) ?_ (by simp) ?_ (by simp)
      · intro u hu; exact h.inside u
      · intro u hu c; exact absurd (by rw [c]; trivial) (out u hu)
      · intro u hu c; exact absurd (by rw [c]; trivial) (out u hu)
      · intro q hq
        have : q = p := by
          cases hq with
          | inl a => cases a; rfl
          | inr a => cases a
        subst this
        exact h.graph _ _ hget
    · cases st
  · -- failUnlock
    rename_i hpc
    have hm : s.mutHolder = some t := hin.1 (by rw [hpc]; trivial)
    have out := others_outside h (t := t) (Or.inl hm)
    cases st
    refine cinv_goto h t (.done none) none s.cache h.graph (by simp [Inside]) ?_
      (by simp) ?_ (by simp) ?_ (by simp) (by simp) ?_
    · intro u hu; simp [out u hu]
    · intro u hu c; exact absurd (by rw [c]; trivial) (out u hu)
    · intro u hu c; exact absurd (by rw [c]; trivial) (out u hu)
    · intro r hr
      cases hr
      simp [alone, h.fail t hpc]
  · -- gotUnlock
    rename_i p hpc
    have hm : s.mutHolder = some t := hin.1 (by rw [hpc]; trivial)
    have out := others_outside h (t := t) (Or.inl hm)
    cases st
    refine cinv_goto h t (.evalNext p) none s.cache h.graph (by simp [Inside]) ?_
      (by simp) ?_ (by simp) ?_ (by simp) ?_ (by simp)
    · intro u hu; simp [out u hu]
    · intro u hu c; exact absurd (by rw [c]; trivial) (out u hu)
    · intro u hu c; exact absurd (by rw [c]; trivial) (out u hu)
    · intro q hq
      have : q = p := by
        cases hq with
        | inl a => cases a
        | inr a => cases a; rfl
      subst this
      exact h.got t q (Or.inl hpc)
  · -- evalNext
    rename_i p hpc
    have hnot : ¬ Inside (s.call t).pc := by rw [hpc]; exact id
    cases st
    refine cinv_goto h t (.done (some (eval p (s.call t).doc))) s.mutHolder s.cache h.graph ?_ ?_
      (by simp) ?_ (by simp) ?_ (by simp) (by simp) ?_
    · have := h.inside t
      simp only [hpc] at this
      simpa [Inside] using this
    · intro u hu; exact h.inside u
    · intro u hu; exact h.hit u
    · intro u hu; exact h.miss u
    · intro r hr
      cases hr
      simp [alone, h.got t p (Or.inr hpc)]
  · cases st

theorem cinv_reach {parse : String → Option P} {eval : P → D → R} {init s : CSt D P R}
    (h0 : CInit parse init) (r : CReach parse eval init s) : CInv parse eval init s := by
  induction r with
  | refl => exact cinv_init h0
  | step _ st ih => exact cinv_step ih st

/-- **The cache is a sub-graph of `parse`** in every reachable state of every interleaving of any
    number of `ExecReader` calls; consequently **no cross-talk**: a call that has returned has
    returned exactly what it returns when run alone — `eval (parse key) doc`, or the parse
    error — whatever the other calls did in between. -/
theorem cache_is_parse_graph (parse : String → Option P) (eval : P → D → R)
    (init : CSt D P R) (h0 : CInit parse init) :
    ∀ s, CReach parse eval init s →
      (∀ k v, s.cache.get k = some v → parse k = some v) ∧
      (∀ t r, (s.call t).pc = .done r →
        r = alone parse eval (init.call t).doc (init.call t).key) := by
  intro s r
  have h := cinv_reach h0 r
  refine ⟨h.graph, fun t res hd => ?_⟩
  have := h.done t res hd
  rw [(h.same t).1, (h.same t).2] at this
  exact this

/-- The single-call run (the meaning of "run alone"): starting from any legal cache, the
    schedule `t, t, t, …` drives call `t` to `done (alone …)`. -/
theorem alone_is_sequential (parse : String → Option P) (eval : P → D → R)
    (init : CSt D P R) (h0 : CInit parse init) (t : Nat) :
    ∃ r, ((crun parse eval init [t, t, t, t, t, t]).call t).pc = .done r ∧
      r = alone parse eval (init.call t).doc (init.call t).key := by
  have hr : ∀ (sched : List Nat) (s : CSt D P R), CReach parse eval init s →
      CReach parse eval init (crun parse eval s sched) := by
    intro sched
    induction sched with
    | nil => intro s r; exact r
    | cons u us ih =>
      intro s r
      unfold crun
      split
      · rename_i s' hs; exact ih s' (.step r hs)
      · exact ih s r
  have reach := hr [t, t, t, t, t, t] init .refl
  have key : ∃ r, ((crun parse eval init [t, t, t, t, t, t]).call t).pc = .done r := by
    have hs := h0.fresh t
    have hf := h0.free
    simp only [crun, cstep, hs, hf, upd_same]
    cases hg : init.cache.get (init.call t).key with
    | none =>
      simp only [upd_same]
      cases hp : parse (init.call t).key with
      | none => simp [upd_same]
      | some p => simp [upd_same, get_put_same]
    | some v => simp [upd_same, hg]
  obtain ⟨r, hr'⟩ := key
  exact ⟨r, hr', (cache_is_parse_graph parse eval init h0 _ reach).2 t r hr'⟩

/-- The `ExecReader` protocol cannot deadlock: in every reachable state some call can step unless
    all have returned. -/
theorem execReader_no_deadlock (parse : String → Option P) (eval : P → D → R)
    (init : CSt D P R) (h0 : CInit parse init) :
    ∀ s, CReach parse eval init s →
      (∀ t, ∃ r, (s.call t).pc = .done r) ∨ ∃ t s', cstep parse eval s t = some s' := by
  intro s r
  have h := cinv_reach h0 r
  -- a call inside the critical section can always step; so can any call when the mutex is free
  have stepInside : ∀ t, s.mutHolder = some t → ∃ s', cstep parse eval s t = some s' := by
    intro t hm
    have hi := (h.inside t).2 hm
    unfold cstep
    simp only
    cases hpc : (s.call t).pc with
    | start => rw [hpc] at hi; exact hi.elim
    | locked => cases hg : s.cache.get (s.call t).key <;> exact ⟨_, rfl⟩
    | miss => cases hg : parse (s.call t).key <;> exact ⟨_, rfl⟩
    | hit =>
      obtain ⟨v, hv⟩ := h.hit t hpc
      simp only [hv]; exact ⟨_, rfl⟩
    | failUnlock => exact ⟨_, rfl⟩
    | gotUnlock p => exact ⟨_, rfl⟩
    | evalNext p => rw [hpc] at hi; exact hi.elim
    | done r => rw [hpc] at hi; exact hi.elim
  cases hm : s.mutHolder with
  | some u => exact Or.inr ⟨u, stepInside u hm⟩
  | none =>
    by_cases hall : ∀ t, ∃ r, (s.call t).pc = .done r
    · exact Or.inl hall
    · refine Or.inr ?_
      have ⟨t, ht⟩ : ∃ t, ¬ ∃ r, (s.call t).pc = .done r :=
        Classical.byContradiction fun c => hall fun t =>
          Classical.byContradiction fun c' => c ⟨t, c'⟩
      refine ⟨t, ?_⟩
      have hni : ¬ Inside (s.call t).pc := fun c => by
        have := (h.inside t).1 c; rw [hm] at this; cases this
      unfold cstep
      simp only
      cases hpc : (s.call t).pc with
      | start => simp only [hm]; exact ⟨_, rfl⟩
      | evalNext p => exact ⟨_, rfl⟩
      | done r => exact absurd ⟨r, hpc⟩ ht
      | locked => rw [hpc] at hni; exact absurd trivial hni
      | miss => rw [hpc] at hni; exact absurd trivial hni
      | hit => rw [hpc] at hni; exact absurd trivial hni
      | failUnlock => rw [hpc] at hni; exact absurd trivial hni
      | gotUnlock p => rw [hpc] at hni; exact absurd trivial hni

end Cache

/-! ### Witnesses (the shape of the regenerated facts obligations) and non-vacuity -/

/-- Repaired `ExecReader`: every extracted path is well locked. -/
theorem execReader_fixed_well_locked : WLpaths execReaderGuard execReaderFixedPaths = true := by
  decide

/-- Pinned tree (D31): the `read cache` after the unlock fails the obligation. -/
theorem execReader_pinned_not_well_locked :
    WLpaths execReaderGuard execReaderPinnedPaths = false := by decide

example : WL execReaderGuard [.lock "mut", .read "cache", .unlock "mut", .read "cache"] = false := by
  decide
example : WL execReaderGuard [.lock "mut", .read "cache", .read "cache", .unlock "mut"] = true := by
  decide
-- re-acquiring a held mutex, unlocking a free one, returning with the mutex held: all rejected
example : WL execReaderGuard [.lock "mut", .lock "mut", .unlock "mut"] = false := by decide
example : WL execReaderGuard [.unlock "mut"] = false := by decide
example : WL execReaderGuard [.lock "mut", .read "cache"] = false := by decide

/-- The workers of a PARALLEL join are well locked. -/
theorem parallelJoin_workers_well_locked :
    WLpaths parallelJoinGuard parallelJoinWorkerPaths = true := by decide

-- the same worker without the mutex around the append is rejected
example : WL parallelJoinGuard [.read "slice", .write "slice"] = false := by decide

/-- Two goroutines running the pinned miss path and the pinned hit path. -/
def pinnedPair : Nat → List Instr
  | 0 => [.lock "mut", .read "cache", .write "cache", .unlock "mut", .read "cache"]
  | 1 => [.lock "mut", .read "cache", .unlock "mut", .read "cache"]
  | _ => []

/-- The model is not vacuous: the pinned program *does* reach a race (thread 1 finishes its
    critical section and is about to read `cache` unlocked while thread 0 is about to write). -/
theorem pinned_races : Race execReaderGuard (run (start pinnedPair) [1, 1, 1, 0, 0]) := by
  refine ⟨0, 1, "cache", true, false, by decide, by decide, ⟨[.unlock "mut", .read "cache"], ?_⟩,
    ⟨[], ?_⟩, Or.inl rfl⟩ <;> decide

/-- Three goroutines running the three repaired paths; the hypotheses of the theorems hold. -/
def fixedTriple : Nat → List Instr
  | 0 => [.lock "mut", .read "cache", .read "cache", .unlock "mut"]
  | 1 => [.lock "mut", .read "cache", .write "cache", .read "cache", .unlock "mut"]
  | 2 => [.lock "mut", .read "cache", .unlock "mut"]
  | _ => []

theorem fixedTriple_wl : ∀ t, WL execReaderGuard (fixedTriple t) = true := by
  intro t
  match t with
  | 0 => decide
  | 1 => decide
  | 2 => decide
  | _ + 3 => rfl

theorem fixedTriple_single : ∀ t, SingleLock "mut" (fixedTriple t) := by
  intro t m hm
  match t with
  | 0 => simp [fixedTriple] at hm; exact hm
  | 1 => simp [fixedTriple] at hm; exact hm
  | 2 => simp [fixedTriple] at hm; exact hm
  | _ + 3 => simp [fixedTriple] at hm

example : ∀ sched, ¬ Race execReaderGuard (run (start fixedTriple) sched) :=
  well_locked_race_free_run execReaderGuard fixedTriple fixedTriple_wl

example : ∀ s, Reach (start fixedTriple) s → Finished s ∨ ∃ t s', step s t = some s' :=
  no_deadlock_single_lock execReaderGuard "mut" fixedTriple fixedTriple_wl fixedTriple_single

-- a blocked `lock` really is disabled in the model (thread 1 after thread 0 took the mutex)
example : (step (run (start fixedTriple) [0]) 1).isSome = false := by decide
example : (step (run (start fixedTriple) [0]) 0).isSome = true := by decide

/-- Concrete cache instance: selectors are parsed to their length, evaluation adds the document. -/
def demoInit : CSt Nat Nat Nat where
  mutHolder := none
  cache := []
  call := fun t => ⟨10 * t, if t % 2 = 0 then "a.b" else "c", .start⟩

def demoParse (k : String) : Option Nat := if k = "c" then none else some k.length

example : CInit demoParse demoInit := ⟨fun _ _ h => by simp [demoInit, Cache.get] at h, rfl, fun _ => rfl⟩

-- an interleaving of calls 0, 1, 2: each returns what it returns alone
def demoSched : List Nat := [0, 0, 0, 0, 0, 2, 1, 2, 1, 2, 1, 2, 1, 0, 2, 2, 1, 1, 1]
example :
    (((crun demoParse (· + ·) demoInit demoSched).call 0).pc,
     ((crun demoParse (· + ·) demoInit demoSched).call 1).pc,
     ((crun demoParse (· + ·) demoInit demoSched).call 2).pc) =
      (.done (some 3), .done none, .done (some 23)) := by decide

end Genql.C13
