/-
  C06 for the relation the executable model really uses: `valEq` on well-formed values is an
  equivalence (`Proofs/ValEqEquiv`), so every theorem of `Properties/C06` (stated for an arbitrary
  equivalence `same`) holds of the model's DISTINCT / UNION stage `dedupBy valEq`: first occurrences,
  no duplicates, idempotence, union-chain associativity.
-/
import Genql.Properties.C06
import Genql.Proofs.ValEqEquiv
set_option linter.unusedSectionVars false
set_option linter.unusedVariables false
namespace Genql.C06
open Genql Genql.ValEqEquiv
variable {N : Type} [Num N] [LawfulNum N]

/-- well-formed values (objects with pairwise different keys, as Go maps are) -/
abbrev WFVal (N : Type) [Num N] := { v : Val N // WF v }

/-- the model's row equality, on well-formed values -/
def sameWF (a b : WFVal N) : Bool := valEq a.1 b.1

/-- **`valEq` is an equivalence relation on well-formed values** -/
theorem sameWF_equiv : Equiv (sameWF (N := N)) where
  refl := fun a => valEq_refl a.1 a.2
  symm := fun a b => valEq_comm a.1 b.1 a.2 b.2
  trans := fun a b c h1 h2 => valEq_trans a.1 b.1 c.1 h1 h2

theorem dedupLoop_val (xs seen : List (WFVal N)) :
    dedupLoop valEq (xs.map (·.1)) (seen.map (·.1)) = (dedupLoop sameWF xs seen).map (·.1) := by
  induction xs generalizing seen with
  | nil => rfl
  | cons x xs ih =>
    simp only [List.map_cons, dedupLoop, List.any_map, Function.comp_def]
    have : (seen.any fun y => valEq x.1 y.1) = seen.any (sameWF x) := rfl
    rw [this]
    cases seen.any (sameWF x)
    · simp only [Bool.false_eq_true, if_false, List.map_cons]
      rw [← ih (x :: seen)]; rfl
    · simp only [if_true]; exact ih seen

/-- the model's DISTINCT on well-formed rows is `dedupBy` for the equivalence `sameWF` -/
theorem dedupBy_val (xs : List (WFVal N)) :
    dedupBy valEq (xs.map (·.1)) = (dedupBy sameWF xs).map (·.1) := by
  unfold dedupBy
  exact dedupLoop_val xs []

/-- **the model's DISTINCT keeps exactly the first occurrence of every class of equal rows** -/
theorem distinct_model_first_occurrence (xs : List (WFVal N)) :
    dedupBy valEq (xs.map (·.1)) = (specDedup sameWF xs).map (·.1) := by
  rw [dedupBy_val, dedup_first_occurrence sameWF sameWF_equiv]

/-- … and it is idempotent -/
theorem distinct_model_idempotent (xs : List (WFVal N)) :
    dedupBy valEq (dedupBy valEq (xs.map (·.1))) = dedupBy valEq (xs.map (·.1)) := by
  rw [dedupBy_val, dedupBy_val, dedup_idempotent sameWF sameWF_equiv]

/-- rows built with `setKey` keep pairwise different keys -/
theorem setKey_nodup {α : Type} (k : String) (v : α) (fs : List (String × α)) (h : (fs.map (·.1)).Nodup) :
    ((setKey k v fs).map (·.1)).Nodup := by
  induction fs with
  | nil => simp [setKey]
  | cons f fs ih =>
    obtain ⟨k', v'⟩ := f
    simp only [List.map_cons, List.nodup_cons] at h
    simp only [setKey]
    by_cases hk : k' = k
    · subst hk; simp only [if_true, List.map_cons, List.nodup_cons]; exact h
    · simp only [hk, if_false, List.map_cons, List.nodup_cons]
      refine ⟨?_, ih h.2⟩
      intro hm
      obtain ⟨kv, hkv, hke⟩ := List.mem_map.mp hm
      -- keys of setKey k v fs are keys of fs or k
      have : ∀ (gs : List (String × α)) (x : String × α), x ∈ setKey k v gs → x.1 = k ∨ x.1 ∈ gs.map (·.1) := by
        intro gs
        induction gs with
        | nil => intro x hx; simp [setKey] at hx; left; rw [hx]
        | cons g gs ihg =>
          obtain ⟨k2, v2⟩ := g
          intro x hx
          simp only [setKey] at hx
          by_cases h2 : k2 = k
          · simp only [h2, if_true, List.mem_cons] at hx
            rcases hx with rfl | hx
            · left; rfl
            · right; simp only [List.map_cons, List.mem_cons]; right; exact List.mem_map.mpr ⟨x, hx, rfl⟩
          · simp only [h2, if_false, List.mem_cons] at hx
            rcases hx with rfl | hx
            · right; simp
            · rcases ihg x hx with h3 | h3
              · left; exact h3
              · right; simp only [List.map_cons, List.mem_cons]; right; exact h3
      rcases this fs kv hkv with h3 | h3
      · exact hk (by rw [← hke, h3])
      · exact h.1 (by rw [← hke]; exact h3)

/-- non-vacuity: two rows equal as maps but with different key order are identified -/
example : valEq (N := Int) (.obj [("a", .num 1), ("b", .str "x")]) (.obj [("b", .str "x"), ("a", .num 1)]) = true := by
  decide

end Genql.C06
