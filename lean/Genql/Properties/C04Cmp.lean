/-
  C04 capstone for the nested-loop path of the executable model: a join of two aliased tables on ONE comparison
  `x.a op y.b` (op ∈ ≠ < ≤ > ≥, so the hash path does not apply) returns a permutation of the textbook join
  whose condition is the SQL comparison of the two column values — INNER, and LEFT OUTER with NULL padding.

  Everything between the two ends is unfolded: column extraction from ON, the catalogues keyed by the
  length-prefixed `%v` text, ON evaluated once per pair of key groups with hard-coded reads on the merged key
  map, the pairing loops.  The one assumption about values: within each key column, equal `%v` texts mean equal
  values (true of Go's `%v` within one scalar kind; it is what makes "one evaluation per key group" sound).
-/
import Genql.Properties.C04On
import Genql.Proofs.KeyText
import Std.Data.String.ToInt
set_option linter.unusedSectionVars false
set_option linter.unusedVariables false
set_option linter.unusedSimpArgs false
namespace Genql.C04
open Genql Genql.C01
variable {N : Type} [Num N] [LawfulNum N]

/-- a row of the aliased table `alias` -/
def wrap (alias : String) (r : Row N) : Val N := .obj [(alias, .obj r)]

/-- the key column's value of an aliased row -/
def colOf (alias c : String) (row : Val N) : Val N :=
  match row with
  | .obj fs => (match Val.get fs alias with | .obj r => Val.get r c | _ => .null)
  | _ => .null

theorem colOf_wrap (alias c : String) (r : Row N) : colOf alias c (wrap alias r) = Val.get r c := by
  simp [colOf, wrap, Val.get, lookup?]

theorem get_single (k : String) (v : Val N) : Val.get [(k, v)] k = v := by simp [Val.get, lookup?]

/-- the flat name of the key column -/
def flatName (alias c : String) : String := ".".intercalate [alias, c]

/-- `rowKey` of an aliased row on the one column `alias.c` -/
theorem rowKey_wrap (alias c : String) (r : Row N) (t : String) (ht : fmtR (Val.get r c) = .ok t) :
    rowKey [[alias, c]] (wrap alias r) =
      .ok ("" ++ toString t.utf8ByteSize ++ ":" ++ t ++ "-", [(flatName alias c, Val.get r c)]) := by
  simp only [rowKey, List.foldlM, readPath, keyStep, wrap, get_single, ht, setKey, bind, Except.bind, pure, Except.pure,
    flatName]

/-- total `%v` text -/
def textOf (v : Val N) : String := (fmtV v).getD ""

theorem fmtR_textOf {v : Val N} (h : (fmtV v).isSome = true) : fmtR v = .ok (textOf v) := by
  unfold fmtR textOf
  cases hf : fmtV v with
  | none => rw [hf] at h; cases h
  | some t => rfl

/-- key text / key map of an aliased row, as total functions -/
def keyText (alias c : String) (row : Val N) : String :=
  "" ++ toString (textOf (colOf alias c row)).utf8ByteSize ++ ":" ++ textOf (colOf alias c row) ++ "-"
def keyMapOf (alias c : String) (row : Val N) : Row N := [(flatName alias c, colOf alias c row)]

theorem rowKey_total (alias c : String) (rows : List (Row N)) (hp : ∀ r ∈ rows, (fmtV (Val.get r c)).isSome = true) :
    ∀ row ∈ rows.map (wrap alias), rowKey [[alias, c]] row = .ok (keyText alias c row, keyMapOf alias c row) := by
  intro row hrow
  obtain ⟨r, hr, rfl⟩ := List.mem_map.mp hrow
  rw [rowKey_wrap alias c r _ (fmtR_textOf (hp r hr))]
  simp [keyText, keyMapOf, colOf_wrap]

/-- equal key texts ⇒ equal `%v` texts of the key column (the length-prefixed text is uniquely decodable) -/
theorem keyText_inj (alias c : String) (r1 r2 : Val N) (h : keyText alias c r1 = keyText alias c r2) :
    textOf (colOf alias c r1) = textOf (colOf alias c r2) := by
  have h' : Genql.KeyText.tok (textOf (colOf alias c r1)) ++ "" = Genql.KeyText.tok (textOf (colOf alias c r2)) ++ "" := by
    simpa [keyText, Genql.KeyText.tok, String.append_assoc] using h
  exact (Genql.KeyText.tok_append_inj h').1

/-- the value the rows of `rows` carry under a key text (well defined when texts determine values) -/
def valueOfText (alias c : String) (rows : List (Val N)) (t : String) : Val N :=
  match rows.find? (fun row => keyText alias c row == t) with
  | some row => colOf alias c row
  | none => .null

theorem valueOfText_mem (alias c : String) (rows : List (Val N))
    (hinj : ∀ r1 ∈ rows, ∀ r2 ∈ rows, textOf (colOf alias c r1) = textOf (colOf alias c r2) →
      colOf alias c r1 = colOf alias c r2)
    (row : Val N) (hrow : row ∈ rows) : valueOfText alias c rows (keyText alias c row) = colOf alias c row := by
  unfold valueOfText
  cases hf : rows.find? (fun r => keyText alias c r == keyText alias c row) with
  | none =>
    have := List.find?_eq_none.mp hf row hrow
    simp at this
  | some r' =>
    have hm := List.mem_of_find?_eq_some hf
    have hk := List.find?_some hf
    simp only [beq_iff_eq] at hk
    exact hinj r' hm row hrow (keyText_inj alias c r' row hk)

theorem textbookOn_congr {α β γ : Type} (pair : α → β → γ) (on on' : α → β → Bool) (l : List α) (r : List β)
    (h : ∀ a ∈ l, ∀ b ∈ r, on a b = on' a b) : textbookOn pair on l r = textbookOn pair on' l r := by
  unfold textbookOn
  apply flatMap_congr_mem
  intro a ha
  congr 1
  apply List.filter_congr
  intro b hb
  exact h a ha b hb

theorem textbookLeftOn_congr {α β γ : Type} (pair : α → β → γ) (pad : α → γ) (on on' : α → β → Bool) (l : List α) (r : List β)
    (h : ∀ a ∈ l, ∀ b ∈ r, on a b = on' a b) : textbookLeftOn pair pad on l r = textbookLeftOn pair pad on' l r := by
  unfold textbookLeftOn
  apply flatMap_congr_mem
  intro a ha
  have : r.filter (on a) = r.filter (on' a) := List.filter_congr (fun b hb => h a ha b hb)
  simp only [this]

/-- the ON condition `x.a op y.b` and its flattened form -/
def cmpOn (op : CmpOp) (x a y b : String) : Expr N := .cmp op (.col [x, a]) (.col [y, b])
def cmpOnFlat (op : CmpOp) (x a y b : String) : Expr N := .cmp op (.col [flatName x a]) (.col [flatName y b])

/-- the row the condition is the SQL comparison on: the two key column values under their flat names -/
def pairRow (x a y b : String) (l r : Val N) : Row N := [(flatName x a, colOf x a l), (flatName y b, colOf y b r)]

theorem merged_is_pairRow (x a y b : String) (l r : Val N) (hne : flatName x a ≠ flatName y b) :
    copyInto (copyInto [] (keyMapOf x a l)) (keyMapOf y b r) = pairRow x a y b l r := by
  have h1 : ¬ flatName x a = flatName y b := hne
  simp [copyInto, setKey, keyMapOf, pairRow, h1]

/-- **joins on one comparison, end to end (nested-loop path of the executable model).** -/
theorem join_cmp_model_textbook (env : Env N) (data : Row N) (inner par : Bool) (op : CmpOp) {κ : Kind}
    (hop : op ∈ [CmpOp.ne, .lt, .le, .gt, .ge]) (hκ : κ ≠ .bool ∨ op = .ne)
    (x a y b : String) (hxy : x ≠ y)
    (hfx : flatName x a ≠ "<-") (hfy : flatName y b ≠ "<-") (hne : flatName x a ≠ flatName y b)
    (ls rs : List (Row N))
    (hkl : ∀ r ∈ ls, kindOf (Val.get r a) = some κ) (hkr : ∀ r ∈ rs, kindOf (Val.get r b) = some κ)
    (hpl : ∀ r ∈ ls, (fmtV (Val.get r a)).isSome = true) (hpr : ∀ r ∈ rs, (fmtV (Val.get r b)).isSome = true)
    (hinjl : ∀ r1 ∈ ls, ∀ r2 ∈ ls, textOf (Val.get r1 a) = textOf (Val.get r2 a) → Val.get r1 a = Val.get r2 a)
    (hinjr : ∀ r1 ∈ rs, ∀ r2 ∈ rs, textOf (Val.get r1 b) = textOf (Val.get r2 b) → Val.get r1 b = Val.get r2 b) :
    ∃ out, execJoin { inner := inner, left := true, straight := false, parallel := par }
        (fun row => do rawBool (← evalExpr env (onCtx data) row (cmpOn op x a y b))) (cmpOn op x a y b)
        (ls.map (wrap x)) (rs.map (wrap y)) x y = .ok out ∧
      out.Perm (if inner
        then textbookOn mergeObj (fun l r => sem (pairRow x a y b l r) (cmpOnFlat op x a y b))
              (ls.map (wrap x)) (rs.map (wrap y))
        else textbookLeftOn mergeObj (padObj y) (fun l r => sem (pairRow x a y b l r) (cmpOnFlat op x a y b))
              (ls.map (wrap x)) (rs.map (wrap y))) := by
  -- the tables, their key functions
  let L := ls.map (wrap (N := N) x)
  let R := rs.map (wrap (N := N) y)
  have hL : ∀ row ∈ L, rowKey [[x, a]] row = .ok (keyText x a row, keyMapOf x a row) := rowKey_total x a ls hpl
  have hR : ∀ row ∈ R, rowKey [[y, b]] row = .ok (keyText y b row, keyMapOf y b row) := rowKey_total y b rs hpr
  have hinjL : ∀ r1 ∈ L, ∀ r2 ∈ L, textOf (colOf x a r1) = textOf (colOf x a r2) → colOf x a r1 = colOf x a r2 := by
    intro r1 h1 r2 h2
    obtain ⟨q1, hq1, rfl⟩ := List.mem_map.mp h1
    obtain ⟨q2, hq2, rfl⟩ := List.mem_map.mp h2
    simp only [colOf_wrap]
    exact hinjl q1 hq1 q2 hq2
  have hinjR : ∀ r1 ∈ R, ∀ r2 ∈ R, textOf (colOf y b r1) = textOf (colOf y b r2) → colOf y b r1 = colOf y b r2 := by
    intro r1 h1 r2 h2
    obtain ⟨q1, hq1, rfl⟩ := List.mem_map.mp h1
    obtain ⟨q2, hq2, rfl⟩ := List.mem_map.mp h2
    simp only [colOf_wrap]
    exact hinjr q1 hq1 q2 hq2
  -- ON as a function of the two key texts
  let onKey : String → String → Bool := fun t1 t2 =>
    sem [(flatName x a, valueOfText x a L t1), (flatName y b, valueOfText y b R t2)] (cmpOnFlat (N := N) op x a y b)
  have honKey : ∀ l ∈ L, ∀ r ∈ R, onKey (keyText x a l) (keyText y b r) = sem (pairRow x a y b l r) (cmpOnFlat op x a y b) := by
    intro l hl r hr
    simp only [onKey, valueOfText_mem x a L hinjL l hl, valueOfText_mem y b R hinjR r hr, pairRow]
  -- ON on a merged key map
  have hon : ∀ l ∈ L, ∀ r ∈ R,
      (fun row => do rawBool (← evalExpr env (onCtx data) row (cmpOn op x a y b)))
        (copyInto (copyInto [] (keyMapOf x a l)) (keyMapOf y b r)) = .ok (onKey (keyText x a l) (keyText y b r)) := by
    intro l hl r hr
    rw [honKey l hl r hr, merged_is_pairRow x a y b l r hne]
    have hfrag : OnFrag (cmpOn (N := N) op x a y b) := OnFrag.cmp op (OnFrag.col _) (OnFrag.col _)
    have hflat : flat (cmpOn (N := N) op x a y b) = cmpOnFlat op x a y b := by
      simp [flat, cmpOn, cmpOnFlat, flatName]
    obtain ⟨ql, hql, rfl⟩ := List.mem_map.mp hl
    obtain ⟨qr, hqr, rfl⟩ := List.mem_map.mp hr
    have hwt : WT (pairRow x a y b (wrap x ql) (wrap y qr)) (cmpOnFlat (N := N) op x a y b) := by
      have o1 : Operand (pairRow x a y b (wrap x ql) (wrap y qr)) κ (Expr.col [flatName x a]) :=
        Operand.col _ κ hfx (by
          have : Val.get (pairRow x a y b (wrap x ql) (wrap y qr)) (flatName x a) = Val.get ql a := by
            simp [pairRow, Val.get, lookup?, colOf_wrap]
          rw [this]; exact hkl ql hql)
      have o2 : Operand (pairRow x a y b (wrap x ql) (wrap y qr)) κ (Expr.col [flatName y b]) :=
        Operand.col _ κ hfy (by
          have h1 : ¬ flatName x a = flatName y b := hne
          have : Val.get (pairRow x a y b (wrap x ql) (wrap y qr)) (flatName y b) = Val.get qr b := by
            simp [pairRow, Val.get, lookup?, colOf_wrap, h1]
          rw [this]; exact hkr qr hqr)
      simp only [List.mem_cons, List.mem_singleton, List.not_mem_nil, or_false] at hop
      cases κ with
      | num => exact WT.cmpNum (by rcases hop with rfl | rfl | rfl | rfl | rfl <;> simp) o1 o2
      | str => exact WT.cmpStr (by rcases hop with rfl | rfl | rfl | rfl | rfl <;> simp) o1 o2
      | bool =>
        rcases hκ with h | h
        · exact absurd rfl h
        · subst h; exact WT.cmpBool (by simp) o1 o2
    have := on_sound env data (pairRow x a y b (wrap x ql) (wrap y qr)) hfrag (by rw [hflat]; exact hwt)
    rw [hflat] at this
    exact this
  -- the model's join
  obtain ⟨cl, cr, out, hcl, hcr, hrun, hperm⟩ := nested_join_model_textbook inner y [[x, a]] [[y, b]]
    (fun row => do rawBool (← evalExpr env (onCtx data) row (cmpOn op x a y b))) onKey
    (keyText x a) (keyText y b) (keyMapOf x a) (keyMapOf y b) L R hL hR hon
    (by intro v hv; obtain ⟨q, _, rfl⟩ := List.mem_map.mp hv; exact ⟨_, rfl⟩)
    (by intro v hv; obtain ⟨q, _, rfl⟩ := List.mem_map.mp hv; exact ⟨_, rfl⟩)
  refine ⟨out, ?_, ?_⟩
  · -- strategy selection and column extraction
    have hx' : ¬ y = x := fun e => hxy e.symm
    have hnoteq : hashJoinAnalyze (cmpOn (N := N) op x a y b) = false := by
      simp only [List.mem_cons, List.mem_singleton, List.not_mem_nil, or_false] at hop
      rcases hop with rfl | rfl | rfl | rfl | rfl <;> simp [hashJoinAnalyze, cmpOn]
    simp only [execJoin, Bool.false_eq_true, if_false, Bool.not_true, cmpOn, extractCols, colInfo, List.head?_cons,
      beq_self_eq_true, if_true, bind, Except.bind, pure, Except.pure]
    have hbeq : (some x == some y) = false := by simp [hxy]
    simp only [hbeq, Bool.false_eq_true, if_false]
    have hcl' : toCatalog [[x, a]] (List.map (wrap x) ls) [] = Except.ok cl := hcl
    have hcr' : toCatalog [[y, b]] (List.map (wrap y) rs) [] = Except.ok cr := hcr
    simp only [cmpOn] at hnoteq hrun
    simp only [hcl', hcr', hnoteq, Bool.false_eq_true, if_false]
    exact hrun
  · cases inner
    · simp only [Bool.false_eq_true, if_false] at hperm ⊢
      rw [textbookLeftOn_congr mergeObj (padObj y) _ _ L R honKey] at hperm
      exact hperm
    · simp only [if_true] at hperm ⊢
      rw [textbookOn_congr mergeObj _ _ L R honKey] at hperm
      exact hperm

/-! ### the hypotheses are satisfiable: integer key columns -/

theorem int_text_inj (m n : Int) (h : textOf (Val.num m : Val Int) = textOf (Val.num n)) : (Val.num m : Val Int) = Val.num n := by
  simp only [textOf, fmtV, Num.fmt, Option.getD_some] at h
  have : m = n := Int.repr_injective h
  rw [this]

/-- instance: two integer tables joined on `x.a < y.b` -/
example (env : Env Int) (data : Row Int) :
    ∃ out, execJoin { inner := false, left := true, straight := false, parallel := false }
        (fun row => do rawBool (← evalExpr env (onCtx data) row (cmpOn .lt "x" "a" "y" "b"))) (cmpOn .lt "x" "a" "y" "b")
        ([[("a", Val.num (1 : Int))], [("a", .num 5)]].map (wrap "x")) ([[("b", Val.num (3 : Int))]].map (wrap "y")) "x" "y"
        = .ok out ∧ out.length = 2 := by
  obtain ⟨out, h1, h2⟩ := join_cmp_model_textbook env data false false .lt (κ := .num) (by simp) (Or.inl (by simp))
    "x" "a" "y" "b" (by decide) (by decide) (by decide) (by decide)
    [[("a", Val.num (1 : Int))], [("a", .num 5)]] [[("b", Val.num (3 : Int))]]
    (by intro r hr; simp at hr; rcases hr with rfl | rfl <;> rfl)
    (by intro r hr; simp at hr; subst hr; rfl)
    (by intro r hr; simp at hr; rcases hr with rfl | rfl <;> rfl)
    (by intro r hr; simp at hr; subst hr; rfl)
    (by
      intro r1 h1 r2 h2 ht
      simp at h1 h2
      rcases h1 with rfl | rfl <;> rcases h2 with rfl | rfl <;>
        first | rfl | exact int_text_inj _ _ ht)
    (by
      intro r1 h1 r2 h2 _
      simp at h1 h2
      subst h1; subst h2; rfl)
  exact ⟨out, h1, by
    have := h2.length_eq
    simp only [Bool.false_eq_true, if_false] at this
    rw [this]
    decide⟩

end Genql.C04
