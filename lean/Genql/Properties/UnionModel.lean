/-
  C06, union part, for the executable model: a `UNION [ALL]` node whose two sides return arrays of objects
  evaluates to `unionRows valEq distinct` of the two sides' rows (each copied, without the navigation marker),
  then ORDER BY, then the window — the pure function the theorems of `Properties/C06` are about
  (`union_all_append`, `union_dedup`, `union_chain_assoc`, `union_limit_outermost`).
-/
import Genql.Properties.C06Model
import Genql.Properties.C01
import Genql.Properties.C05
set_option linter.unusedSectionVars false
set_option linter.unusedVariables false
set_option linter.unusedSimpArgs false
namespace Genql.C06
open Genql Genql.C01
variable {N : Type} [Num N] [LawfulNum N]

/-- the copy `SELECT *` makes of one row of the combined source -/
def stripRow (r : Row N) : Val N := .obj (copyInto [] (delKey "<-" r))

theorem levelLoop_true (post : List (Val N) → List (Val N) → R (List (Val N))) (src : List (Val N))
    (rows : List (Row N)) :
    levelLoop (fun _ _ => (.ok true : R Bool)) post src (rows.map Val.obj) = .ok (rows.map Val.obj) := by
  have := levelLoop_flat (fun _ _ => (.ok true : R Bool)) post src rows (fun _ => true) (fun _ _ => rfl)
  rw [this, List.filter_eq_self.mpr (by simp)]

/-- **the union node of the model**: both sides' rows appended, copied, deduplicated unless ALL, then sorted
    and windowed as one result -/
theorem union_model (env : Env N) (data : Row N) (l r : Query N) (distinct : Bool)
    (orderBy : List (List String × Bool)) (limit offset : Option Nat) (ls rs : List (Row N))
    (hl : execQuery env data {} l = .ok (.arr (ls.map Val.obj)))
    (hr : execQuery env data {} r = .ok (.arr (rs.map Val.obj))) :
    execQuery env data {} (.union [] l r distinct orderBy limit offset) = (do
      let rows := unionRows valEq distinct (ls.map stripRow) (rs.map stripRow)
      let sorted ← sortRows orderBy rows
      let out ← window sorted offset limit
      pure (Val.arr out)) := by
  simp only [execQuery, bind, Except.bind] at hl hr
  cases hpl : prepare env data {} l with
  | error e => rw [hpl] at hl; cases hl
  | ok pl =>
    rw [hpl] at hl
    cases hpr : prepare env data {} r with
    | error e => rw [hpr] at hr; cases hr
    | ok pr =>
      rw [hpr] at hr
      simp only [] at hl hr
      simp only [execQuery, prepare, evalCtes, cteNames, List.append_nil, hpl, hpr, hl, hr, asArray, bind, Except.bind,
        pure, Except.pure, execLevel]
      rw [← List.map_append, levelLoop_true]
      simp only []
      rw [mapE_eq_map_of_ok (g := fun v => match v with | Val.obj fs => stripRow fs | v => v)]
      · simp only [List.map_map, Function.comp_def, unionRows, List.map_append]
        generalize (if distinct = true then
            dedupBy valEq (List.map (fun x => stripRow x) ls ++ List.map (fun x => stripRow x) rs)
          else List.map (fun x => stripRow x) ls ++ List.map (fun x => stripRow x) rs) = combined
        cases hs : sortRows orderBy combined with
        | error e => rfl
        | ok v => cases hw : window v offset limit <;> rfl
      · intro x hx
        simp only [List.mem_map] at hx
        obtain ⟨row, _, rfl⟩ := hx
        rfl

/-- UNION ALL of two sides is their concatenation (each row copied) -/
theorem union_all_model (env : Env N) (data : Row N) (l r : Query N) (ls rs : List (Row N))
    (hl : execQuery env data {} l = .ok (.arr (ls.map Val.obj)))
    (hr : execQuery env data {} r = .ok (.arr (rs.map Val.obj))) :
    execQuery env data {} (.union [] l r false [] none none) = .ok (.arr (ls.map stripRow ++ rs.map stripRow)) := by
  rw [union_model env data l r false [] none none ls rs hl hr]
  simp [unionRows, sortRows, window_none, bind, Except.bind, pure, Except.pure]

/-- the fields of the copy `stripRow` makes -/
def stripR (r : Row N) : Row N := copyInto [] (delKey "<-" r)

/-- **a parenthesised inner union with a window of its own** — `(A UNION ALL B LIMIT n OFFSET m) UNION ALL C`: the window cuts
    `A ++ B` (rows `m .. m+n-1` of the concatenation), and only then the rows of `C` are appended; nothing of the inner
    LIMIT / OFFSET is lost or moved to the outer union (round 11: a flattening of union chains dropped it). -/
theorem nested_union_inner_window (env : Env N) (data : Row N) (a b c : Query N) (as bs cs : List (Row N))
    (limit offset : Option Nat)
    (ha : execQuery env data {} a = .ok (.arr (as.map Val.obj)))
    (hb : execQuery env data {} b = .ok (.arr (bs.map Val.obj)))
    (hc : execQuery env data {} c = .ok (.arr (cs.map Val.obj))) :
    execQuery env data {} (.union [] (.union [] a b false [] limit offset) c false [] none none)
      = .ok (.arr ((((as.map stripR ++ bs.map stripR).drop (offset.getD 0)).take
            (limit.getD (as.length + bs.length))).map stripRow ++ cs.map stripRow)) := by
  have hin : execQuery env data {} (.union [] a b false [] limit offset)
      = .ok (.arr ((((as.map stripR ++ bs.map stripR).drop (offset.getD 0)).take
            (limit.getD (as.length + bs.length))).map Val.obj)) := by
    rw [union_model env data a b false [] limit offset as bs ha hb]
    have hrows : unionRows valEq false (as.map stripRow) (bs.map stripRow)
        = (as.map stripR ++ bs.map stripR).map Val.obj := by
      simp only [unionRows, List.map_append, List.map_map, Function.comp_def, Bool.false_eq_true, if_false]
      rfl
    have hs : ∀ rows : List (Val N), sortRows [] rows = .ok rows := by
      intro rows; simp [sortRows]
    simp only [hrows, hs, bind, Except.bind, pure, Except.pure]
    rw [C05.window_exact]
    simp [List.map_drop, List.map_take]
  exact union_all_model env data _ c _ cs hin hc

end Genql.C06
