/-
  Property C20 at the level of a query: the select list evaluated for every row in source order, item by item from
  left to right, with the variable map threaded through (`Model/VarsQuery`), behaves as the register machine run on
  the row-major, left-to-right history of SETVAR / GETVAR calls: the caller's map after the query is the machine's
  final state, and the values the GETVAR columns hold are the machine's outputs, in order.
-/
import Genql.Model.VarsQuery
import Genql.Properties.C20
import Genql.Proofs.ValEq
import Genql.Inst.IntNum
set_option linter.unusedSectionVars false
set_option linter.unusedVariables false
set_option linter.unusedSimpArgs false
namespace Genql.C20
open Genql Genql.Vars Genql.VarsQ
variable {N : Type} [Num N]

theorem run_append {V : Type} (st : List (String × V)) (a b : List (VOp V)) :
    run st (a ++ b) = ((run (run st a).1 b).1, (run st a).2 ++ (run (run st a).1 b).2) := by
  induction a generalizing st with
  | nil => simp [run]
  | cons op ops ih =>
    simp only [List.cons_append, run]
    rw [ih]

/-- the outputs of the register machine that are columns (`SETVAR` contributes none) -/
def columnsOf {V : Type} (outs : List (Option (Option V))) : List (Option V) := outs.filterMap id

theorem columnsOf_append {V : Type} (a b : List (Option (Option V))) : columnsOf (a ++ b) = columnsOf a ++ columnsOf b := by
  simp [columnsOf, List.filterMap_append]

/-- **one row**: the select list, evaluated left to right, leaves the map in the state the register machine reaches on
    the row's history, and GETVAR returned exactly the machine's outputs -/
theorem selVars_refines (env : Env N) (ctx : Ctx N) (cur : Row N) (sel : List (SelItem N)) (st : Store N) (acc : Row N)
    (out : Row N) (st' : Store N) (reads : List (Option (Val N)))
    (h : selVars env ctx cur sel st acc = .ok (out, st', reads)) :
    ∃ ops, rowOps env ctx cur sel st = .ok ops ∧ st' = (run st ops).1 ∧ reads = columnsOf (run st ops).2 := by
  induction sel generalizing st acc reads with
  | nil =>
    simp only [selVars] at h
    cases h
    exact ⟨[], rfl, rfl, rfl⟩
  | cons it rest ih =>
    simp only [selVars] at h
    simp only [rowOps, itemOps]
    cases hc : classify it with
    | set k a =>
      simp only [hc, bind, Except.bind] at h ⊢
      cases hk : keyOf env ctx cur k with
      | error e => rw [hk] at h; cases h
      | ok key =>
        rw [hk] at h; simp only [] at h ⊢
        cases hv : argVal env ctx cur (substGet st a) with
        | error e => rw [hv] at h; cases h
        | ok v =>
          rw [hv] at h; simp only [] at h ⊢
          obtain ⟨ops, hops, hst, hr⟩ := ih _ _ _ h
          refine ⟨.set key v :: ops, by simp [run, step, hops, pure, Except.pure], ?_, ?_⟩
          · simp only [run, step]; exact hst
          · simp only [run, step, columnsOf, List.filterMap_cons, id]; exact hr
    | get k col =>
      simp only [hc, bind, Except.bind] at h ⊢
      cases hk : keyOf env ctx cur k with
      | error e => rw [hk] at h; cases h
      | ok key =>
        rw [hk] at h; simp only [] at h ⊢
        cases hrest : selVars env ctx cur rest st (setKey col ((lookup? key st).getD .null) acc) with
        | error e => rw [hrest] at h; cases h
        | ok t =>
          obtain ⟨o, s2, rd⟩ := t
          rw [hrest] at h
          simp only [pure, Except.pure] at h
          cases h
          obtain ⟨ops, hops, hst, hr⟩ := ih _ _ _ hrest
          refine ⟨.get key :: ops, by simp [run, step, hops, pure, Except.pure], ?_, ?_⟩
          · simp only [run, step]; exact hst
          · simp only [run, step, columnsOf, List.filterMap_cons, id]
            rw [hr]; rfl
    | other it' =>
      simp only [hc, bind, Except.bind] at h ⊢
      cases hs : evalSel env ctx cur [substItem st it'] acc with
      | error e => rw [hs] at h; cases h
      | ok acc' =>
        rw [hs] at h; simp only [] at h
        obtain ⟨ops, hops, hst, hr⟩ := ih _ _ _ h
        exact ⟨ops, by simp [run, step, hops, pure, Except.pure], hst, hr⟩

/-- **the whole query**: rows in source order.  The map the caller gets back is the register machine's state after the
    row-major, left-to-right history; the GETVAR values are its outputs in that order — so "GETVAR returns the value
    most recently stored by SETVAR for that key in evaluation order, or NULL" (`vars_refine_registers`,
    `final_store`, `never_set_is_null`) holds of the query. -/
theorem query_vars_refine (env : Env N) (ctx : Ctx N) (sel : List (SelItem N)) (rows : List (Row N)) (st : Store N)
    (outs : List (Val N)) (st' : Store N) (reads : List (Option (Val N)))
    (h : rowsVars env ctx sel rows st = .ok (outs, st', reads)) :
    ∃ ops, historyOf env ctx sel rows st = .ok ops ∧ st' = (run st ops).1 ∧ reads = columnsOf (run st ops).2 ∧
      outs.length = rows.length := by
  induction rows generalizing st outs reads with
  | nil =>
    simp only [rowsVars] at h
    cases h
    exact ⟨[], rfl, rfl, rfl, rfl⟩
  | cons r rs ih =>
    simp only [rowsVars, bind, Except.bind] at h
    cases h1 : selVars env ctx r sel st [] with
    | error e => rw [h1] at h; cases h
    | ok t =>
      obtain ⟨o, s1, rd1⟩ := t
      rw [h1] at h; simp only [] at h
      cases h2 : rowsVars env ctx sel rs s1 with
      | error e => rw [h2] at h; cases h
      | ok t2 =>
        obtain ⟨os, s2, rd2⟩ := t2
        rw [h2] at h
        simp only [pure, Except.pure] at h
        cases h
        obtain ⟨ops1, ho1, hs1, hr1⟩ := selVars_refines env ctx r sel st [] o s1 rd1 h1
        obtain ⟨ops2, ho2, hs2, hr2, hl⟩ := ih _ _ _ h2
        refine ⟨ops1 ++ ops2, by simp [historyOf, ho1, ← hs1, ho2, bind, Except.bind, pure, Except.pure], ?_, ?_, by simp [hl]⟩
        · rw [run_append]; simp only []; rw [← hs1]; exact hs2
        · rw [run_append]; simp only []; rw [columnsOf_append, ← hr1, ← hs1, ← hr2]

/-- the history is row-major: all calls of a row before any call of the next one -/
theorem history_row_major (env : Env N) (ctx : Ctx N) (sel : List (SelItem N)) (r : Row N) (rs : List (Row N))
    (st : Store N) (a b : List (VOp (Val N))) (ha : rowOps env ctx r sel st = .ok a)
    (hb : historyOf env ctx sel rs (run st a).1 = .ok b) :
    historyOf env ctx sel (r :: rs) st = .ok (a ++ b) := by
  simp [historyOf, ha, hb, bind, Except.bind, pure, Except.pure]

/-- SETVAR items contribute no column and GETVAR items exactly one, whatever the map holds -/
theorem selVars_other_untouched (env : Env N) (ctx : Ctx N) (cur : Row N) (it : SelItem N) (st : Store N) (acc acc' : Row N)
    (hc : classify it = .other it) (h : evalSel env ctx cur [substItem st it] acc = .ok acc') :
    selVars env ctx cur [it] st acc = .ok (acc', st, []) := by
  simp [selVars, hc, h, bind, Except.bind]

end Genql.C20

/-! ### instance (a test of the statement's shape) -/
namespace Genql.C20
open Genql Genql.Vars Genql.VarsQ
/-- `SELECT GETVAR('k') AS g, SETVAR('k', a) AS sv, a FROM t` over a = 5, 7 with an empty map: the first row reads NULL, the
    second reads the 5 the first row stored; the map ends with k = 7 -/
example :
    (rowsVars (N := Int) { dfx := .none, constants := none } ⟨[], false, false, [], 2⟩
      [.item (.func .none "getvar" [.str "k"]) "g" "g", .item (.func .none "setvar" [.str "k", .col ["a"]]) "sv" "sv",
       .item (.col ["a"]) "a" ""]
      [[("a", .num 5)], [("a", .num 7)]] []).toOption.map (fun t => (t.2.1, t.2.2)) =
    some ([("k", .num 7)], [none, some (.num 5)]) := by decide
/-- a counter: `SELECT SETVAR('n', GETVAR('n') + 1) AS sv, GETVAR('n') AS n FROM t` over three rows with n = 0 — the nested read
    sees what the previous row stored: 1, 2, 3 -/
example :
    (rowsVars (N := Int) { dfx := .none, constants := none } ⟨[], false, false, [], 3⟩
      [.item (.func .none "setvar" [.str "n", .bin .plus (.func .none "getvar" [.str "n"]) (.num 1)]) "sv" "sv",
       .item (.func .none "getvar" [.str "n"]) "n" "n"]
      [[("a", .num 5)], [("a", .num 7)], [("a", .num 9)]] [("n", .num 0)]).toOption.map (fun t => (t.2.1, t.2.2)) =
    some ([("n", .num 3)], [some (.num 1), some (.num 2), some (.num 3)]) := by decide
end Genql.C20
