/-
  Property C10 — no query, option set or input can crash or hang the host process.
  (Proved part: the modelled components are total and panic-free; recursion through CTEs terminates.
   The regenerated panic-site / goroutine / recover obligations are in Genql/Obligations/C10.lean.)
-/
import Genql.Properties.C05
import Genql.Properties.C09
import Genql.Properties.C16
import Genql.Properties.C17
import Genql.Model.Eval
import Genql.Inst.IntNum
set_option linter.unusedSectionVars false
namespace Genql.C10
open Genql
variable {N : Type} [Num N]

/-- `(*Query).Exec()` as the model sees it: an array result as is, anything else wrapped; the API
    boundary (`defer recover` in New / Exec / exec / Sort) turns a panic into an error -/
def apiResult (r : R (Val N)) : R (Val N) :=
  match r with
  | .ok (.arr xs) => .ok (.arr xs)
  | .ok v => .ok (.arr [v])
  | .error .panic => .error .error
  | .error e => .error e

/-- whatever the query, document and scope: the API returns rows or an error, never a panic.  (That
    the recover boundaries assumed here exist in the Go code is obligation `recover_boundaries`; the
    model evaluator itself is a total function — Lean accepted it by structural recursion — so it
    cannot loop.) -/
theorem api_never_panics (env : Env N) (data : Row N) (q : Query N) :
    apiResult (execQuery env data {} q) ≠ .error .panic := by
  unfold apiResult
  split <;> simp_all

/-- LIMIT/OFFSET never fail and never index outside the rows -/
theorem window_total {α : Type} (rs : List α) (offset limit : Option Nat) :
    ∃ out, window rs offset limit = .ok out := ⟨_, Genql.C05.window_exact rs offset limit⟩

/-- a path selector, ANY string, on any document: an error at worst -/
theorem selector_total (doc : Val N) (s : String) : Sel.execReader doc s ≠ .error .panic :=
  Genql.C09.sel_total_no_panic doc s

theorem dq2bt_total (s : List UInt8) : Scan.dq2btE s ≠ .error .panic := Genql.C17.dq2bt_never_panics s

theorem fixArr_total (s : List UInt8) : Scan.fixArrE s ≠ .error .panic := Genql.C17.fixArr_total s

theorem sanitize_total (t : List Char) (args : List San.Arg) : San.sanitize t args ≠ .error .panic :=
  (Genql.C16.sanitize_no_panic t args).1

/-- a CTE that names itself: evaluation terminates (in the model with the out-of-model marker for the
    forward reference; the Go code reports "references itself") -/
theorem self_cte_terminates :
    execQuery (N := Int) ⟨.none, none, none⟩ [("t", .arr [])] {}
      (.select [.mk "c" (.select [] false [.star] (.table ["c"] "" "c") (.bool true) [] (.bool true) [] none none)]
        false [.star] (.table ["c"] "" "c") (.bool true) [] (.bool true) [] none none) = .error .oom := by
  decide

/-- two CTEs naming each other: terminates as well -/
theorem mutual_cte_terminates :
    execQuery (N := Int) ⟨.none, none, none⟩ [("t", .arr [])] {}
      (.select [.mk "c" (.select [] false [.star] (.table ["d"] "" "d") (.bool true) [] (.bool true) [] none none),
                .mk "d" (.select [] false [.star] (.table ["c"] "" "c") (.bool true) [] (.bool true) [] none none)]
        false [.star] (.table ["c"] "" "c") (.bool true) [] (.bool true) [] none none) = .error .oom := by
  decide

/-- an index beyond the array in a FROM path is an error (D18/D20: it used to be a panic) -/
theorem from_index_out_of_range_is_error (xs : List (Val N)) (i : Nat) (h : xs.length ≤ i) (rest : List Sel.Step) :
    Sel.evalSteps (Sel.Step.dims [.idx i] :: rest) (.arr xs) = .error .error :=
  (Genql.C09.index_out_of_range_error i [] rest xs h).1

end Genql.C10
