/-
  Genql.Properties.C17 — the two query-text preprocessors rewrite syntax only.

  C17: "PostgresEscapingDialect only changes how identifiers are quoted: a query written with
  double-quoted identifiers under that option returns what the same query with backtick identifiers
  returns without it, and the contents of single-quoted string literals and backtick identifiers
  (any double quotes, brackets, escapes inside them) reach the engine untouched.  IdiomaticArrays
  makes `[e1, ...]` (nested too) a synonym of `ARRAY(e1, ...)` and leaves brackets inside string
  literals and quoted identifiers alone."

  Model: Genql/Model/Scan.lean (`dq2bt` = `DoubleQuotesToBackTick`, `findBrackets` =
  `FindArrayIndex`, `fixArr` = `FixIdiomaticArray`, byte-level).  With the option set, the text
  handed to the SQL parser is the preprocessor's output, so "returns what the other spelling returns"
  is: the output text IS the other spelling.
-/
import Genql.Model.Scan
import Genql.Proofs.ScanDq
import Genql.Proofs.ScanArr
import Genql.Proofs.ScanForest

namespace Genql.C17
open Genql.Scan

/-- ASCII text as bytes (for the examples; reduces in the kernel) -/
def asc (s : String) : List UInt8 := s.toList.map (fun c => c.toNat.toUInt8)

/-! ## PostgresEscapingDialect — `DoubleQuotesToBackTick` -/

/-- a query in the Postgres spelling: identifiers in double quotes -/
abbrev renderDQ (q : List Tok) : List UInt8 := render true q
/-- the same query in the engine's native spelling: identifiers in backticks -/
abbrev renderBT (q : List Tok) : List UInt8 := render false q

/-- **Spelling.**  For every token list `q` — raw text free of quote characters; single-quoted
    literals with arbitrary content, `'` written `''` or `\'`, backslash escapes being two-byte
    units; backtick identifiers free of backticks; double-quoted identifiers whose content is free of
    `"`, `` ` `` and `\` — the preprocessor succeeds on the double-quote spelling and yields exactly
    the backtick spelling. -/
theorem dq2bt_spelling (q : List Tok) (hq : q.all Tok.ok = true) :
    dq2bt (renderDQ q) = some (renderBT q) := by
  have := scan_render_aux q [] hq
  simp only [List.append_nil] at this
  simp [dq2bt, dq2btE, toOption, renderDQ, renderBT, this, scan]

/-- **Segmentation / literals are preserved.**  The output is the concatenation of the per-token
    conversions, and the conversion of anything that is not a double-quoted identifier — raw text,
    a single-quoted literal with any double quotes, brackets or escapes inside, a backtick
    identifier — is the token's own bytes. -/
theorem dq2bt_preserves_literals (q : List Tok) (hq : q.all Tok.ok = true) :
    dq2bt (q.flatMap (Tok.render true)) = some (q.flatMap conv) ∧
    ∀ t ∈ q, t.isIdent = false → conv t = t.render true := by
  refine ⟨?_, fun t _ ht => by cases t <;> simp_all [conv, Tok.isIdent]⟩
  have := dq2bt_spelling q hq
  simp only [renderDQ, renderBT, render] at this
  rw [this]; congr 1
  exact flatMap_congr' (fun t _ => (conv_eq t).symm)

/-- **Totality.**  On every byte string the function either returns a string or returns its
    `index out of range` error; it never panics (and the model never declines).  The error arises
    only from a backslash that is the last byte inside `'…` or `"…`. -/
theorem dq2bt_total (s : List UInt8) :
    (∃ out, dq2btE s = .ok out) ∨ dq2btE s = .error .error := by
  cases h : dq2btE s with
  | ok out => exact Or.inl ⟨out, rfl⟩
  | error e => rw [scan_error .raw s e h]; exact Or.inr rfl

theorem dq2bt_never_panics (s : List UInt8) : dq2btE s ≠ .error .panic := by
  rcases dq2bt_total s with ⟨out, h⟩ | h <;> simp [h]

/-- A query without double-quoted identifiers is left alone (so turning the option on is harmless
    for queries already written with backticks). -/
theorem dq2bt_id_of_no_ident (q : List Tok) (hq : q.all Tok.ok = true)
    (hn : ∀ t ∈ q, t.isIdent = false) : dq2bt (renderBT q) = some (renderBT q) := by
  have h1 := dq2bt_spelling q hq
  have : renderDQ q = renderBT q := by
    simp only [renderDQ, renderBT, render]
    apply flatMap_congr'
    intro t ht
    have := hn t ht
    cases t <;> simp_all [Tok.isIdent, Tok.render]
  rw [this] at h1; exact h1

/-! ### examples -/

/-- ``SELECT "a b", 'x"y[\'', `c"d` FROM t`` — hypotheses of the theorems are satisfiable -/
def exQ : List Tok :=
  [.raw (asc "SELECT "), .ident (asc "a b"), .raw (asc ", "),
   .sqlit [.ch 120, .ch bDq, .ch 121, .ch bLb, .esc bSq, .dbl], .raw (asc ", "),
   .btid (asc "c\"d"), .raw (asc " FROM t")]

example : exQ.all Tok.ok = true := by decide
example : renderDQ exQ = asc "SELECT \"a b\", 'x\"y[\\'''', `c\"d` FROM t" := by decide
example : renderBT exQ = asc "SELECT `a b`, 'x\"y[\\'''', `c\"d` FROM t" := by decide
example : dq2bt (renderDQ exQ) = some (renderBT exQ) := dq2bt_spelling exQ (by decide)
example : dq2bt (renderBT (exQ.filter (fun t => !t.isIdent)))
    = some (renderBT (exQ.filter (fun t => !t.isIdent))) :=
  dq2bt_id_of_no_ident _ (by decide) (by decide)

example : dq2bt (asc "SELECT \"a b\", 'x\"y', [1,[2,3]]")
    = some (asc "SELECT `a b`, 'x\"y', [1,[2,3]]") := by decide
/-- `\"` inside a double-quoted identifier becomes a bare `"` -/
example : dq2bt (asc "\"a\\\"b\"") = some (asc "`a\"b`") := by decide
/-- a backslash as last byte inside a quote: the Go function returns its error -/
example : dq2btE (asc "'abc\\") = .error .error := rfl
example : dq2btE (asc "\"abc\\") = .error .error := rfl
/-- …but not outside quotes, and an unterminated quote is not an error -/
example : dq2bt (asc "abc\\") = some (asc "abc\\") := by decide
example : dq2bt (asc "\"abc") = some (asc "`abc") := by decide

/-! ## IdiomaticArrays — `FindArrayIndex` / `FixIdiomaticArray` -/

/-- the lexer's verdict on every byte of `s`: active `[`, active `]`, or anything else (inside a
    quote, right after a backslash, or not a bracket) -/
abbrev kindsOf (s : List UInt8) : List Kind := kinds false none s

/-- the active brackets of `s` are balanced (depth never negative, zero at the end) -/
def Balanced (s : List UInt8) : Prop := depthAfter 0 (kindsOf s) = some 0

instance (s : List UInt8) : Decidable (Balanced s) := by unfold Balanced; infer_instance

/-- every active `[` replaced by `ARRAY(`, every active `]` by `)`, nothing else changed -/
def rewrite (s : List UInt8) : List UInt8 := rewriteK (kindsOf s) s

/-- **Complete characterisation** of `FixIdiomaticArray` on all byte strings. -/
theorem fixArrE_eq (s : List UInt8) :
    fixArrE s = if Balanced s then .ok (rewrite s) else .error .error :=
  Scan.fixArrE_eq s

/-- **Spelling (all byte strings).**  Whenever the brackets outside quoted segments are balanced,
    every `[` is replaced by `ARRAY(`, every `]` by `)`, and nothing else changes.  (The FIFO pairing
    of `FindArrayIndex` — the k-th `[` with the k-th `]` — is harmless: see `findBrackets_fifo`;
    the k-th rewrite happens at offset exactly `5k`: `fixLoop_spec`.) -/
theorem fixArr_spelling (s : List UInt8) (h : Balanced s) : fixArr s = some (rewrite s) := by
  simp [fixArr, fixArrE_eq, h, toOption]

/-- the pairs computed by `FindArrayIndex` on a balanced string: k-th `[` with k-th `]` -/
theorem findBrackets_fifo (s : List UInt8) (h : Balanced s) :
    findBrackets s = some ((opens 0 (kindsOf s)).zip (closes 0 (kindsOf s))) := by
  have hp := forall2_of_balanced (kindsOf s) 0 0 s.length [] h rfl (by simp) (by simp)
  simp only [List.nil_append] at hp
  unfold Balanced at h
  simp [findBrackets, findBracketsE_eq, h, toOption, zipPad_eq_zip _ _ hp.length_eq]

/-- the output is 5 bytes longer per array -/
theorem rewrite_length (s : List UInt8) :
    (rewrite s).length = s.length + 5 * (opens 0 (kindsOf s)).length := by
  have : ∀ (ks : List Kind) (X : List UInt8) (i : Nat), ks.length = X.length →
      (rewriteK ks X).length = X.length + 5 * (opens i ks).length := by
    intro ks
    induction ks with
    | nil => intro X i h; cases X <;> simp_all [rewriteK, opens]
    | cons k ks ih =>
      intro X i h
      cases X with
      | nil => simp at h
      | cons b X =>
        have := ih X (i + 1) (by simpa using h)
        cases k <;> simp [rewriteK, opens, this] <;> omega
  exact this _ _ 0 (by simp)

/-- **Spelling (grammar form).**  For every bracket forest `t` — leaves are bytes outside quotes
    (no quote, backslash or bracket), `\d` pairs, and quoted segments `'…'`, `"…"`, `` `…` `` whose
    content is arbitrary (brackets, other quotes) except that the segment's own quote and backslashes
    occur only in `\d` pairs — `[e1, [e2, …]]` becomes `ARRAY(e1, ARRAY(e2, …))` with every leaf
    (in particular every bracket inside a quoted segment) copied unchanged. -/
theorem fixArr_spelling_forest (t : Forest) (ht : t.ok = true) :
    fixArr (t.render false) = some (t.render true) := by
  have hk := kinds_forest t [] ht
  simp only [List.append_nil, kinds] at hk
  have hb : Balanced (t.render false) := by
    have := depthAfter_forest t 0 []
    simpa [Balanced, kindsOf, hk, depthAfter] using this
  rw [fixArr_spelling _ hb]
  have := rewriteK_forest t [] []
  simp only [List.append_nil] at this
  simp [rewrite, kindsOf, hk, this, rewriteK]

/-- **Unbalanced brackets give an error** (never a panic): an unmatched `]` … -/
theorem fixArr_unmatched_close_error (s : List UInt8) (h : depthAfter 0 (kindsOf s) = none) :
    fixArrE s = .error .error := by
  simp [fixArrE_eq, Balanced, h]

/-- … or an unclosed `[` (the pair keeps end index 0 and is caught by the `index[1] <= index[0]`
    test). -/
theorem fixArr_unclosed_open_error (s : List UInt8) (m : Nat)
    (h : depthAfter 0 (kindsOf s) = some (m + 1)) : fixArrE s = .error .error := by
  simp [fixArrE_eq, Balanced, h]

theorem fixArr_unbalanced_error (s : List UInt8) (h : ¬ Balanced s) : fixArrE s = .error .error := by
  simp [fixArrE_eq, h]

/-- **Totality**: no slice or index expression of `FixIdiomaticArray`/`FindArrayIndex` is ever out of
    range, on any input. -/
theorem fixArr_total (s : List UInt8) : fixArrE s ≠ .error .panic := by
  rw [fixArrE_eq]; split <;> simp

theorem findBrackets_total (s : List UInt8) : findBracketsE s ≠ .error .panic := by
  rw [findBracketsE_eq]; split <;> simp

/-! ### examples -/

/-- `[1,'[',[`]`,\[]] x` -/
def exT : Forest :=
  .arr (.leaf (.raw 49) (.leaf (.raw 44) (.leaf (.quoted bSq [.ch bLb]) (.leaf (.raw 44)
    (.arr (.leaf (.quoted bBt [.ch bRb]) (.leaf (.raw 44) (.leaf (.esc bLb) .nil))) .nil)))))
   (.leaf (.raw 32) (.leaf (.raw 120) .nil))

example : exT.ok = true := by decide
example : exT.render false = asc "[1,'[',[`]`,\\[]] x" := by decide
example : exT.render true = asc "ARRAY(1,'[',ARRAY(`]`,\\[)) x" := by decide
example : fixArr (exT.render false) = some (exT.render true) := fixArr_spelling_forest exT (by decide)

example : Balanced (asc "SELECT \"a b\", 'x\"y', [1,[2,3]]") := by decide
example : fixArr (asc "SELECT \"a b\", 'x\"y', [1,[2,3]]")
    = some (asc "SELECT \"a b\", 'x\"y', ARRAY(1,ARRAY(2,3))") := by decide
example : findBrackets (asc "[[][]]") = some [(0, 2), (1, 4), (3, 5)] := by decide
example : fixArr (asc "[[][]]") = some (asc "ARRAY(ARRAY()ARRAY())") := by decide
example : fixArr (asc "'[' \"]\" `[[` [1]") = some (asc "'[' \"]\" `[[` ARRAY(1)") := by decide
example : fixArrE (asc "SELECT [1,[2,3]") = .error .error := rfl
example : fixArrE (asc "SELECT [1,2]]") = .error .error := rfl
example : fixArrE (asc "][") = .error .error := rfl
example : ¬ Balanced (asc "][") := by decide
/-- hypotheses of `fixArr_unmatched_close_error` / `fixArr_unclosed_open_error` are satisfiable -/
example : depthAfter 0 (kindsOf (asc "f(a]) '['")) = none := by decide
example : depthAfter 0 (kindsOf (asc "[[1] ']'")) = some (0 + 1) := by decide
/-- an unterminated quote hides everything after it (no error, nothing rewritten) -/
example : fixArr (asc "[1] '[2]") = some (asc "ARRAY(1) '[2]") := by decide
/-- Behaviour worth knowing (lexer disagreement, outside the grammar of `fixArr_spelling_forest`):
    `FindArrayIndex` lets a backslash hide the next byte everywhere, also inside backtick
    identifiers and outside quotes, whereas `DoubleQuotesToBackTick` (and the SQL tokenizer) end a
    backtick identifier at the next backtick.  After an identifier ending in `\` the rest of the
    query is therefore treated as quoted and its arrays are NOT rewritten. -/
example : fixArr (asc "`a\\`,[1]") = some (asc "`a\\`,[1]") := by decide
example : dq2bt (asc "`a\\`,\"b\"") = some (asc "`a\\`,`b`") := by decide

/-! ### the two rewrites together -/

/-- no option: the text reaches the parser untouched -/
theorem applyDialect_off (s : List UInt8) : applyDialect false false s = .ok s := rfl

/-- one option: exactly that rewrite -/
theorem applyDialect_pg_only (s : List UInt8) : applyDialect true false s = dq2btE s := by
  unfold applyDialect
  cases dq2btE s <;> rfl

theorem applyDialect_arr_only (s : List UInt8) : applyDialect false true s = fixArrE s := rfl

/-- both options: the array rewrite runs on the OUTPUT of the quote rewrite (so a double-quoted identifier is already a
    backtick identifier when the brackets are looked for), and a failure of either is the failure of `New` -/
theorem applyDialect_both (s : List UInt8) : applyDialect true true s = (dq2btE s >>= fixArrE) := rfl

/-- both options on a query in the Postgres spelling: when the native spelling has balanced active brackets, the parser
    receives the native spelling with every array literal rewritten -/
theorem applyDialect_both_spelling (q : List Tok) (hq : q.all Tok.ok = true) (hb : Balanced (renderBT q)) :
    applyDialect true true (renderDQ q) = .ok (rewrite (renderBT q)) := by
  have h1 := dq2bt_spelling q hq
  have h1' : dq2btE (renderDQ q) = .ok (renderBT q) := by
    unfold dq2bt toOption at h1
    cases h : dq2btE (renderDQ q) with
    | ok v => rw [h] at h1; simp at h1; rw [h1]
    | error e => rw [h] at h1; simp at h1
  rw [applyDialect_both, h1']
  show fixArrE (renderBT q) = _
  rw [fixArrE_eq, if_pos hb]

/-- `SELECT "a" FROM t WHERE "a" IN [1, 2]` under both options -/
example : toOption (applyDialect true true (asc "SELECT \"a\" FROM t WHERE \"a\" IN [1, 2]"))
    = some (asc "SELECT `a` FROM t WHERE `a` IN ARRAY(1, 2)") := by decide

end Genql.C17
