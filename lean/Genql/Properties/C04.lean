/-
  Property C04 — joins return the textbook multiset for every join type and strategy.

  The catalogue of `ToCatalog` is the first-appearance grouping of C03 (`scanG` with equality of key
  texts); the hash join and the nested loop over key groups are permutations of the textbook join.
  Go map iteration order and the goroutine schedule of the PARALLEL variants only permute key groups.
-/
import Genql.Properties.C03
set_option linter.unusedSectionVars false
set_option linter.unusedVariables false
set_option linter.unusedSimpArgs false
namespace Genql.C04
open Genql Genql.C03 Genql.C06
variable {α β γ κ : Type} [DecidableEq κ]

def keq (a b : κ) : Bool := a == b

theorem keq_equiv : Equiv (keq (κ := κ)) where
  refl := by intro a; simp [keq]
  symm := by
    intro a b
    simp only [keq]
    rw [Bool.eq_iff_iff]
    simp only [beq_iff_eq]
    exact eq_comm
  trans := by
    intro a b c h1 h2
    simp only [keq, beq_iff_eq] at h1 h2 ⊢
    rw [h1, h2]

/-- `ToCatalog`: key groups in order of first appearance (pure scan; key extraction cannot fail here) -/
def catalogue (key : α → κ) (rows : List α) : List (κ × List α) := scanG keq key rows []

theorem catalogue_eq_groups (key : α → κ) (rows : List α) :
    catalogue key rows = groupsSpec keq key rows := groups_eq_spec keq keq_equiv key rows

/-- flattening a catalogue gives back the rows (as a multiset) -/
theorem catalog_flatten_perm (key : α → κ) (rows : List α) :
    ((catalogue key rows).flatMap (·.2)).Perm rows := by
  rw [catalogue_eq_groups]; exact groups_partition keq keq_equiv key rows

/-- members of the group of key `k` carry key `k` -/
theorem catalog_member_key (key : α → κ) (rows : List α) (k : κ) (ms : List α)
    (hg : (k, ms) ∈ catalogue key rows) (a : α) (ha : a ∈ ms) : key a = k := by
  rw [catalogue_eq_groups] at hg
  have := ((mem_group_iff keq key rows k ms hg a).mp ha).2
  simp only [keq, beq_iff_eq] at this
  exact this.symm

/-- `r.Rows[hash]` -/
def lookupCat (k : κ) : List (κ × List α) → List α
  | [] => []
  | (k', ms) :: rest => if k' = k then ms else lookupCat k rest

theorem lookupCat_map (k : κ) (f : κ → List α) (ks : List κ) :
    lookupCat k (ks.map (fun k' => (k', f k'))) = if k ∈ ks then f k else [] := by
  induction ks with
  | nil => rfl
  | cons k0 ks ih =>
    simp only [List.map_cons, lookupCat, ih, List.mem_cons]
    by_cases h : k0 = k
    · subst h; simp
    · have : ¬ k = k0 := fun e => h e.symm
      simp [h, this]

/-- **lookup in a catalogue is filtering**: the rows stored under key `k` are exactly the rows with
    key `k`, in source order -/
theorem catalog_lookup_filter (key : α → κ) (rows : List α) (k : κ) :
    lookupCat k (catalogue key rows) = rows.filter (fun a => key a == k) := by
  rw [catalogue_eq_groups]
  simp only [groupsSpec]
  rw [lookupCat_map]
  have hfil : rows.filter (fun x => keq k (key x)) = rows.filter (fun a => key a == k) := by
    apply List.filter_congr
    intro a _
    exact keq_equiv.symm k (key a)
  by_cases hk : k ∈ specDedup keq (rows.map key)
  · simp [hk, hfil]
  · simp only [hk, if_false]
    symm
    apply List.filter_eq_nil_iff.mpr
    intro a ha hka
    apply hk
    have hka' : key a = k := by simpa using hka
    obtain ⟨y, hy, hyk⟩ := specDedup_covers keq keq_equiv (rows.map key) (key a) (List.mem_map.mpr ⟨a, ha, rfl⟩)
    simp only [keq, beq_iff_eq] at hyk
    rw [← hka', ← hyk]; exact hy

/-! ### hash join -/

/-- `HashJoinFunc` / `HashJoinMatchFunc`, inner: for every left key group, pair its rows with the
    right rows stored under the same key -/
def hashInner (pair : α → β → γ) (kl : α → κ) (kr : β → κ) (l : List α) (r : List β) : List γ :=
  (catalogue kl l).flatMap fun g => g.2.flatMap fun a => (lookupCat g.1 (catalogue kr r)).map (pair a)

/-- textbook inner equi-join -/
def textbookInner (pair : α → β → γ) (kl : α → κ) (kr : β → κ) (l : List α) (r : List β) : List γ :=
  l.flatMap fun a => (r.filter fun b => kr b == kl a).map (pair a)

theorem flatMap_congr_mem {f g : α → List γ} (l : List α) (h : ∀ a ∈ l, f a = g a) :
    l.flatMap f = l.flatMap g := by
  induction l with
  | nil => rfl
  | cons a l ih =>
    simp only [List.flatMap_cons, h a (by simp), ih (fun b hb => h b (by simp [hb]))]

/-- **the hash join is a permutation of the textbook inner join** (whatever the order in which
    key groups are visited) -/
theorem hash_inner_perm_textbook (pair : α → β → γ) (kl : α → κ) (kr : β → κ) (l : List α) (r : List β) :
    (hashInner pair kl kr l r).Perm (textbookInner pair kl kr l r) := by
  unfold hashInner textbookInner
  have h1 : ((catalogue kl l).flatMap fun g => g.2.flatMap fun a => (lookupCat g.1 (catalogue kr r)).map (pair a))
      = ((catalogue kl l).flatMap fun g => g.2.flatMap fun a => (r.filter fun b => kr b == kl a).map (pair a)) := by
    apply flatMap_congr_mem
    intro g hg
    apply flatMap_congr_mem
    intro a ha
    obtain ⟨k, ms⟩ := g
    rw [catalog_lookup_filter, catalog_member_key kl l k ms hg a ha]
  rw [h1, ← List.flatMap_assoc]
  exact List.Perm.flatMap_right _ (catalog_flatten_perm kl l)

/-- LEFT join: unmatched left rows appear once, padded -/
def hashLeft (pair : α → β → γ) (pad : α → γ) (kl : α → κ) (kr : β → κ) (l : List α) (r : List β) : List γ :=
  (catalogue kl l).flatMap fun g =>
    let rs := lookupCat g.1 (catalogue kr r)
    if rs.isEmpty then g.2.map pad else g.2.flatMap fun a => rs.map (pair a)

def textbookLeft (pair : α → β → γ) (pad : α → γ) (kl : α → κ) (kr : β → κ) (l : List α) (r : List β) : List γ :=
  l.flatMap fun a =>
    let ms := r.filter fun b => kr b == kl a
    if ms.isEmpty then [pad a] else ms.map (pair a)

theorem hash_left_perm_textbook (pair : α → β → γ) (pad : α → γ) (kl : α → κ) (kr : β → κ)
    (l : List α) (r : List β) :
    (hashLeft pair pad kl kr l r).Perm (textbookLeft pair pad kl kr l r) := by
  unfold hashLeft textbookLeft
  have h1 : ((catalogue kl l).flatMap fun g =>
        let rs := lookupCat g.1 (catalogue kr r)
        if rs.isEmpty then g.2.map pad else g.2.flatMap fun a => rs.map (pair a))
      = ((catalogue kl l).flatMap fun g => g.2.flatMap fun a =>
        let ms := r.filter fun b => kr b == kl a
        if ms.isEmpty then [pad a] else ms.map (pair a)) := by
    apply flatMap_congr_mem
    intro g hg
    obtain ⟨k, ms⟩ := g
    simp only [catalog_lookup_filter]
    have hkey : ∀ a ∈ ms, (r.filter fun b => kr b == kl a) = r.filter fun b => kr b == k := by
      intro a ha; rw [catalog_member_key kl l k ms hg a ha]
    by_cases he : (r.filter fun b => kr b == k).isEmpty = true
    · simp only [he, if_true]
      rw [← List.flatMap_singleton' (List.map pad ms), List.flatMap_map]
      apply flatMap_congr_mem
      intro a ha
      simp [hkey a ha, he]
    · simp only [he, if_false]
      apply flatMap_congr_mem
      intro a ha
      simp [hkey a ha, he]
  rw [h1, ← List.flatMap_assoc]
  exact List.Perm.flatMap_right _ (catalog_flatten_perm kl l)


/-! ### nested loop over key groups -/

theorem flatMap_perm_pointwise {f g : α → List γ} (l : List α) (h : ∀ a ∈ l, (f a).Perm (g a)) :
    (l.flatMap f).Perm (l.flatMap g) := by
  induction l with
  | nil => exact List.Perm.refl _
  | cons a l ih =>
    simp only [List.flatMap_cons]
    exact List.Perm.append (h a (by simp)) (ih (fun b hb => h b (by simp [hb])))

theorem flatMap_append_perm' (g h : β → List γ) (m : List β) :
    (m.flatMap fun y => g y ++ h y).Perm (m.flatMap g ++ m.flatMap h) := by
  induction m with
  | nil => exact List.Perm.refl _
  | cons y m ih =>
    simp only [List.flatMap_cons]
    -- (g y ++ h y) ++ rest  ~  (g y ++ G) ++ (h y ++ H)
    refine (List.Perm.append_left _ ih).trans ?_
    simp only [List.append_assoc]
    apply List.Perm.append_left
    rw [← List.append_assoc, ← List.append_assoc]
    exact List.Perm.append_right _ List.perm_append_comm

/-- nested iterations commute up to a permutation -/
theorem flatMap_comm_perm (f : α → β → List γ) (l : List α) (m : List β) :
    (l.flatMap fun x => m.flatMap fun y => f x y).Perm (m.flatMap fun y => l.flatMap fun x => f x y) := by
  induction l with
  | nil =>
    have : (m.flatMap fun y => ([] : List α).flatMap fun x => f x y) = [] := by
      induction m with
      | nil => rfl
      | cons y m ih => simp [ih]
    rw [this]; exact List.Perm.refl _
  | cons x l ih =>
    simp only [List.flatMap_cons]
    exact (List.Perm.append_left _ ih).trans (flatMap_append_perm' (f x) (fun y => l.flatMap fun x => f x y) m).symm

/-- `JoinFunc` / `JoinMatchFunc`, inner: ON is evaluated once per (left group, right group) on the
    two key values; a true result pairs all rows of the two groups -/
def nestedInner (pair : α → β → γ) (onKey : κ → κ → Bool) (kl : α → κ) (kr : β → κ)
    (l : List α) (r : List β) : List γ :=
  (catalogue kl l).flatMap fun gl => (catalogue kr r).flatMap fun gr =>
    if onKey gl.1 gr.1 then gl.2.flatMap fun a => gr.2.map (pair a) else []

/-- textbook inner join on an arbitrary condition -/
def textbookOn (pair : α → β → γ) (on : α → β → Bool) (l : List α) (r : List β) : List γ :=
  l.flatMap fun a => (r.filter (on a)).map (pair a)

theorem flatMap_nil_fun (l : List α) : (l.flatMap fun _ => ([] : List γ)) = [] := by
  induction l with
  | nil => rfl
  | cons a l ih => simp [ih]

/-- one left key group against all right key groups: the blocks whose key pair satisfies ON are,
    together, the per-row textbook matches of the group's rows -/
theorem nested_group_perm (pair : α → β → γ) (on : α → β → Bool) (onKey : κ → κ → Bool)
    (kl : α → κ) (kr : β → κ) (hon : ∀ a b, on a b = onKey (kl a) (kr b)) (l : List α) (r : List β)
    (gl : κ × List α) (hgl : gl ∈ catalogue kl l) :
    ((catalogue kr r).flatMap fun gr =>
        if onKey gl.1 gr.1 then gl.2.flatMap fun a => gr.2.map (pair a) else []).Perm
      (gl.2.flatMap fun a => (r.filter (on a)).map (pair a)) := by
  obtain ⟨k, ms⟩ := gl
  -- (1) the block condition is the per-pair condition
  have h1 : ((catalogue kr r).flatMap fun gr =>
        if onKey k gr.1 then ms.flatMap fun a => gr.2.map (pair a) else []) =
      ((catalogue kr r).flatMap fun gr => ms.flatMap fun a => (gr.2.filter (on a)).map (pair a)) := by
    apply flatMap_congr_mem
    intro gr hgr
    obtain ⟨k', ns⟩ := gr
    have hall : ∀ a ∈ ms, ns.filter (on a) = if onKey k k' then ns else [] := by
      intro a ha
      have hka := catalog_member_key kl l k ms hgl a ha
      by_cases hc : onKey k k' = true
      · simp only [hc, if_true]
        apply List.filter_eq_self.mpr
        intro b hb
        rw [hon, hka, catalog_member_key kr r k' ns hgr b hb]; exact hc
      · simp only [hc, if_false]
        apply List.filter_eq_nil_iff.mpr
        intro b hb
        rw [hon, hka, catalog_member_key kr r k' ns hgr b hb]; exact hc
    by_cases hc : onKey k k' = true
    · simp only [hc, if_true]
      apply flatMap_congr_mem
      intro a ha; rw [hall a ha]; simp [hc]
    · have hc' : onKey k k' = false := by simpa using hc
      simp only [hc', Bool.false_eq_true, if_false]
      symm
      have : (ms.flatMap fun a => (ns.filter (on a)).map (pair a)) = ms.flatMap fun _ => ([] : List γ) := by
        apply flatMap_congr_mem
        intro a ha; rw [hall a ha]; simp [hc']
      rw [this, flatMap_nil_fun]
  show ((catalogue kr r).flatMap fun gr =>
        if onKey k gr.1 then ms.flatMap fun a => gr.2.map (pair a) else []).Perm
      (ms.flatMap fun a => (r.filter (on a)).map (pair a))
  rw [h1]
  -- (2) swap the two iterations
  refine (flatMap_comm_perm (fun gr a => (gr.2.filter (on a)).map (pair a)) (catalogue kr r) ms).trans ?_
  -- (3) per left row: all right groups together are the right table
  apply flatMap_perm_pointwise
  intro a _
  have : ((catalogue kr r).flatMap fun gr => (gr.2.filter (on a)).map (pair a)) =
      (((catalogue kr r).flatMap (·.2)).filter (on a)).map (pair a) := by
    rw [List.filter_flatMap, List.map_flatMap]
  rw [this]
  exact ((catalog_flatten_perm kr r).filter (on a)).map (pair a)

/-- **the nested loop over key groups is a permutation of the textbook join**, for every ON
    condition that is determined by the extracted key columns (`on a b = onKey (key a) (key b)`) -/
theorem nested_inner_perm_textbook (pair : α → β → γ) (on : α → β → Bool) (onKey : κ → κ → Bool)
    (kl : α → κ) (kr : β → κ) (hon : ∀ a b, on a b = onKey (kl a) (kr b)) (l : List α) (r : List β) :
    (nestedInner pair onKey kl kr l r).Perm (textbookOn pair on l r) := by
  unfold nestedInner textbookOn
  -- all left groups together are the left table
  refine (flatMap_perm_pointwise (catalogue kl l)
    (fun gl hgl => nested_group_perm pair on onKey kl kr hon l r gl hgl)).trans ?_
  rw [← List.flatMap_assoc]
  exact List.Perm.flatMap_right _ (catalog_flatten_perm kl l)

/-! ### nested loop, LEFT: a left key group no right key group matches is padded once per row -/

theorem flatMap_single_map (f : α → γ) (l : List α) : (l.flatMap fun a => [f a]) = l.map f := by
  induction l with
  | nil => rfl
  | cons a l ih => simp [ih]

/-- every key group of a catalogue has a member -/
theorem catalog_group_nonempty (key : α → κ) (rows : List α) (g : κ × List α)
    (hg : g ∈ catalogue key rows) : g.2 ≠ [] := by
  obtain ⟨k, ms⟩ := g
  rw [catalogue_eq_groups] at hg
  have hg' := hg
  simp only [groupsSpec, List.mem_map, Prod.mk.injEq] at hg'
  obtain ⟨k', hk', rfl, rfl⟩ := hg'
  have hk'' := (specDedup_sublist keq _).subset hk'
  simp only [List.mem_map] at hk''
  obtain ⟨x, hx, hxk⟩ := hk''
  intro hnil
  have : x ∈ rows.filter (fun y => keq k' (key y)) := by
    simp [List.mem_filter, hx, keq, hxk]
  simp only at hnil
  rw [hnil] at this
  cases this

/-- every row sits in the key group of its key -/
theorem catalog_cover (key : α → κ) (rows : List α) (b : α) (hb : b ∈ rows) :
    ∃ g ∈ catalogue key rows, g.1 = key b ∧ b ∈ g.2 := by
  rw [catalogue_eq_groups]
  obtain ⟨k, hk, hkb⟩ := specDedup_covers keq keq_equiv (rows.map key) (key b) (List.mem_map.mpr ⟨b, hb, rfl⟩)
  refine ⟨(k, rows.filter (fun z => keq k (key z))), ?_, ?_, ?_⟩
  · simp only [groupsSpec, List.mem_map]; exact ⟨k, hk, rfl⟩
  · simpa [keq] using hkb
  · simp [List.mem_filter, hb, hkb]

/-- group members are source rows -/
theorem catalog_member_mem (key : α → κ) (rows : List α) (g : κ × List α)
    (hg : g ∈ catalogue key rows) (a : α) (ha : a ∈ g.2) : a ∈ rows := by
  obtain ⟨k, ms⟩ := g
  rw [catalogue_eq_groups] at hg
  exact ((mem_group_iff keq key rows k ms hg a).mp ha).1

/-- `JoinFunc` / `JoinMatchFunc`, LEFT: as the inner loop, and a left key group for which no right
    key group satisfied ON contributes each of its rows once, padded -/
def nestedLeft (pair : α → β → γ) (pad : α → γ) (onKey : κ → κ → Bool) (kl : α → κ) (kr : β → κ)
    (l : List α) (r : List β) : List γ :=
  (catalogue kl l).flatMap fun gl =>
    let rows := (catalogue kr r).flatMap fun gr =>
      if onKey gl.1 gr.1 then gl.2.flatMap fun a => gr.2.map (pair a) else []
    if (catalogue kr r).any (fun gr => onKey gl.1 gr.1) then rows else rows ++ gl.2.map pad

/-- textbook LEFT OUTER join on an arbitrary condition -/
def textbookLeftOn (pair : α → β → γ) (pad : α → γ) (on : α → β → Bool) (l : List α) (r : List β) : List γ :=
  l.flatMap fun a =>
    let ms := r.filter (on a)
    if ms.isEmpty then [pad a] else ms.map (pair a)

/-- **the nested LEFT loop over key groups is a permutation of the textbook LEFT OUTER join** -/
theorem nested_left_perm_textbook (pair : α → β → γ) (pad : α → γ) (on : α → β → Bool) (onKey : κ → κ → Bool)
    (kl : α → κ) (kr : β → κ) (hon : ∀ a b, on a b = onKey (kl a) (kr b)) (l : List α) (r : List β) :
    (nestedLeft pair pad onKey kl kr l r).Perm (textbookLeftOn pair pad on l r) := by
  unfold nestedLeft textbookLeftOn
  have hgroup : ∀ gl ∈ catalogue kl l,
      (let rows := (catalogue kr r).flatMap fun gr =>
          if onKey gl.1 gr.1 then gl.2.flatMap fun a => gr.2.map (pair a) else []
        if (catalogue kr r).any (fun gr => onKey gl.1 gr.1) then rows else rows ++ gl.2.map pad).Perm
      (gl.2.flatMap fun a =>
        let ms := r.filter (on a)
        if ms.isEmpty then [pad a] else ms.map (pair a)) := by
    intro gl hgl
    have hinner := nested_group_perm pair on onKey kl kr hon l r gl hgl
    obtain ⟨k, ms⟩ := gl
    by_cases hany : (catalogue kr r).any (fun gr => onKey k gr.1) = true
    · -- some right key group matches: every row of the left group has a match
      simp only [hany, if_true]
      obtain ⟨gr, hgr, hk⟩ := List.any_eq_true.mp hany
      have hne := catalog_group_nonempty kr r gr hgr
      obtain ⟨b, hb⟩ := List.exists_mem_of_ne_nil _ hne
      have hbr := catalog_member_mem kr r gr hgr b hb
      have hkb := catalog_member_key kr r gr.1 gr.2 hgr b hb
      have hrhs : (ms.flatMap fun a =>
            let xs := r.filter (on a)
            if xs.isEmpty then [pad a] else xs.map (pair a)) =
          (ms.flatMap fun a => (r.filter (on a)).map (pair a)) := by
        apply flatMap_congr_mem
        intro a ha
        have hka := catalog_member_key kl l k ms hgl a ha
        have : b ∈ r.filter (on a) := by
          simp only [List.mem_filter]
          refine ⟨hbr, ?_⟩
          rw [hon, hka, hkb]; exact hk
        have hne' : (r.filter (on a)).isEmpty = false := by
          cases hf : r.filter (on a) with
          | nil => rw [hf] at this; cases this
          | cons _ _ => rfl
        simp [hne']
      rw [hrhs]
      exact hinner
    · -- no right key group matches: no row of the left group has a match
      have hany' : (catalogue kr r).any (fun gr => onKey k gr.1) = false := by simpa using hany
      simp only [hany', Bool.false_eq_true, if_false]
      have hall : ∀ gr ∈ catalogue kr r, onKey k gr.1 = false := by
        intro gr hgr
        have := List.any_eq_false.mp hany' gr hgr
        simpa using this
      have hrows : ((catalogue kr r).flatMap fun gr =>
            if onKey k gr.1 then ms.flatMap fun a => gr.2.map (pair a) else []) = [] := by
        have : ((catalogue kr r).flatMap fun gr =>
            if onKey k gr.1 then ms.flatMap fun a => gr.2.map (pair a) else []) =
            ((catalogue kr r).flatMap fun _ => ([] : List γ)) := by
          apply flatMap_congr_mem
          intro gr hgr
          simp [hall gr hgr]
        rw [this, flatMap_nil_fun]
      rw [hrows, List.nil_append]
      have hrhs : (ms.flatMap fun a =>
            let xs := r.filter (on a)
            if xs.isEmpty then [pad a] else xs.map (pair a)) = ms.flatMap fun a => [pad a] := by
        apply flatMap_congr_mem
        intro a ha
        have hka := catalog_member_key kl l k ms hgl a ha
        have : r.filter (on a) = [] := by
          apply List.filter_eq_nil_iff.mpr
          intro b hb
          obtain ⟨g, hg, hgk, _⟩ := catalog_cover kr r b hb
          rw [hon, hka, ← hgk, hall g hg]
          simp
        simp [this]
      rw [hrhs]
      rw [flatMap_single_map]
  refine (flatMap_perm_pointwise (catalogue kl l) hgroup).trans ?_
  rw [← List.flatMap_assoc]
  exact List.Perm.flatMap_right _ (catalog_flatten_perm kl l)

/-- **strategy independence**: on an equality condition the automatic hash path, an explicit
    HASH_JOIN and the nested loop (STRAIGHT_JOIN / fallback) return the same multiset -/
theorem strategy_independent (pair : α → β → γ) (kl : α → κ) (kr : β → κ) (l : List α) (r : List β) :
    (hashInner pair kl kr l r).Perm (nestedInner pair (fun a b => b == a) kl kr l r) := by
  have h1 := hash_inner_perm_textbook pair kl kr l r
  have h2 := nested_inner_perm_textbook pair (fun a b => kr b == kl a) (fun a b => b == a) kl kr
    (fun _ _ => rfl) l r
  exact h1.trans h2.symm

/-- **schedule independence**: the PARALLEL variants run one task per left key group and append the
    chunks under a mutex in completion order — any order `σ` of the key groups gives the same multiset -/
theorem parallel_schedule_independent (chunk : κ × List α → List γ) (groups σ : List (κ × List α))
    (hσ : σ.Perm groups) : (σ.flatMap chunk).Perm (groups.flatMap chunk) :=
  List.Perm.flatMap_right chunk hσ

/-- the same for Go's map iteration order in the sequential variants -/
theorem map_order_independent (pair : α → β → γ) (kl : α → κ) (kr : β → κ) (l : List α) (r : List β)
    (σ : List (κ × List α)) (hσ : σ.Perm (catalogue kl l)) :
    (σ.flatMap fun g => g.2.flatMap fun a => (lookupCat g.1 (catalogue kr r)).map (pair a)).Perm
      (textbookInner pair kl kr l r) :=
  (List.Perm.flatMap_right _ hσ).trans (hash_inner_perm_textbook pair kl kr l r)

/-! ### the key text -/

/-- the key text of `ToCatalog`: each column's text prefixed by its length -/
def encKey (cols : List String) : String :=
  cols.foldl (fun acc t => acc ++ toString t.utf8ByteSize ++ ":" ++ t ++ "-") ""

/-- non-vacuity / the old collision: `("a-","b")` and `("a","-b")` now get different key texts -/
example : encKey ["a-", "b"] ≠ encKey ["a", "-b"] := by decide
example : hashInner (fun (a : Nat × Nat) (b : Nat × Nat) => (a, b)) (·.1) (·.1) [(1, 10), (2, 20), (1, 11)] [(1, 7), (3, 9), (1, 8)]
    = [((1, 10), (1, 7)), ((1, 10), (1, 8)), ((1, 11), (1, 7)), ((1, 11), (1, 8))] := by decide

end Genql.C04
