/-
  Property C07 — CTEs, derived tables and sub-queries equal staged evaluation.
-/
import Genql.Properties.C01
set_option linter.unusedSectionVars false
set_option linter.unusedVariables false
set_option linter.unusedSimpArgs false
namespace Genql.C07
open Genql Genql.C01
variable {N : Type} [Num N] [LawfulNum N]

theorem filter_ne_self {l : List String} {c : String} (h : c ∉ l) : l.filter (· ≠ c) = l := by
  apply List.filter_eq_self.mpr
  intro a ha
  simp only [ne_eq, decide_not, Bool.not_eq_true', decide_eq_false_iff_not]
  intro e; subst e; exact h ha

/-- **CTE substitution.** A query `WITH c AS (inner), rest… <outer>` is prepared exactly like
    `WITH rest… <outer>` over the document extended with `c ↦ (result of inner)`: naming the
    intermediate result does not change it.  (`c` fresh; `inner` evaluated in the scope in which
    `c` and the later CTE names are not yet defined.) -/
theorem cte_substitution (env : Env N) (data : Row N) (sc : Scope) (c : String) (inner : Query N)
    (ctes : List (Cte N)) (d : Bool) (sel : List (SelItem N)) (frm : From N) (wh : Expr N)
    (gb : List (String × List String)) (hv : Expr N) (ob : List (List String × Bool)) (lim off : Option Nat)
    (v : Val N)
    (hc1 : c ∉ cteNames ctes) (hc2 : c ∉ sc.fwd) (hc3 : c ∉ sc.bad)
    (hin : execQuery env data { sc with fwd := c :: (cteNames ctes ++ sc.fwd) } inner = .ok v) :
    execQuery env data sc (.select (.mk c inner :: ctes) d sel frm wh gb hv ob lim off) =
    execQuery env (setKey c v data) sc (.select ctes d sel frm wh gb hv ob lim off) := by
  have hin' : (do let p ← prepare env data { sc with fwd := c :: (cteNames ctes ++ sc.fwd) } inner; p.run p.frm) = .ok v := hin
  have hf : (c :: (cteNames ctes ++ sc.fwd)).filter (· ≠ c) = cteNames ctes ++ sc.fwd := by
    simp only [List.filter_cons, ne_eq, not_true_eq_false, decide_false, Bool.false_eq_true, if_false]
    apply filter_ne_self
    simp [hc1, hc2]
  simp only [execQuery, prepare, cteNames, evalCtes, List.cons_append]
  rw [hin']
  simp only [filter_ne_self hc3, hf]

/-- **CTE chains**: an earlier CTE is visible to a later one — the second CTE's body is evaluated over
    the document that already holds the first one's result -/
theorem cte_chain (env : Env N) (data : Row N) (sc : Scope) (c1 c2 : String) (q1 q2 : Query N)
    (rest : List (Cte N)) (d : Bool) (sel : List (SelItem N)) (frm : From N) (wh : Expr N)
    (gb : List (String × List String)) (hv : Expr N) (ob : List (List String × Bool)) (lim off : Option Nat)
    (v1 v2 : Val N)
    (hn : c1 ≠ c2) (h1 : c1 ∉ cteNames rest) (h2 : c2 ∉ cteNames rest) (hf1 : c1 ∉ sc.fwd) (hf2 : c2 ∉ sc.fwd)
    (hb1 : c1 ∉ sc.bad) (hb2 : c2 ∉ sc.bad)
    (hq1 : execQuery env data { sc with fwd := c1 :: (c2 :: (cteNames rest ++ sc.fwd)) } q1 = .ok v1)
    (hq2 : execQuery env (setKey c1 v1 data) { sc with fwd := c2 :: (cteNames rest ++ sc.fwd) } q2 = .ok v2) :
    execQuery env data sc (.select (.mk c1 q1 :: .mk c2 q2 :: rest) d sel frm wh gb hv ob lim off) =
    execQuery env (setKey c2 v2 (setKey c1 v1 data)) sc (.select rest d sel frm wh gb hv ob lim off) := by
  rw [cte_substitution env data sc c1 q1 (.mk c2 q2 :: rest) d sel frm wh gb hv ob lim off v1
    (by simp [cteNames, hn, h1]) hf1 hb1 (by simpa [cteNames] using hq1)]
  exact cte_substitution env (setKey c1 v1 data) sc c2 q2 rest d sel frm wh gb hv ob lim off v2 h2 hf2 hb2 hq2

/-- **a WITH in front of a UNION** is handed to the branches: `WITH c AS (inner), rest… l UNION r` is prepared exactly
    like `WITH rest… l UNION r` over the document extended with `c ↦ (result of inner)` — both branches read
    the same materialised rows -/
theorem union_cte_substitution (env : Env N) (data : Row N) (sc : Scope) (c : String) (inner : Query N)
    (ctes : List (Cte N)) (l r : Query N) (d : Bool) (ob : List (List String × Bool)) (lim off : Option Nat)
    (v : Val N)
    (hc1 : c ∉ cteNames ctes) (hc2 : c ∉ sc.fwd) (hc3 : c ∉ sc.bad)
    (hin : execQuery env data { sc with fwd := c :: (cteNames ctes ++ sc.fwd) } inner = .ok v) :
    execQuery env data sc (.union (.mk c inner :: ctes) l r d ob lim off) =
    execQuery env (setKey c v data) sc (.union ctes l r d ob lim off) := by
  have hin' : (do let p ← prepare env data { sc with fwd := c :: (cteNames ctes ++ sc.fwd) } inner; p.run p.frm) = .ok v := hin
  have hf : (c :: (cteNames ctes ++ sc.fwd)).filter (· ≠ c) = cteNames ctes ++ sc.fwd := by
    simp only [List.filter_cons, ne_eq, not_true_eq_false, decide_false, Bool.false_eq_true, if_false]
    apply filter_ne_self
    simp [hc1, hc2]
  simp only [execQuery, prepare, cteNames, evalCtes, List.cons_append]
  rw [hin']
  simp only [filter_ne_self hc3, hf]

/-- **reading a CTE is reading a table**: `WITH c AS (inner) SELECT … FROM c …` equals the same SELECT over the
    document in which `c` is an ordinary table holding the rows `inner` returns -/
theorem cte_read_is_table_read (env : Env N) (data : Row N) (c : String) (inner : Query N) (d : Bool)
    (sel : List (SelItem N)) (alias : String) (wh : Expr N) (gb : List (String × List String)) (hv : Expr N)
    (ob : List (List String × Bool)) (lim off : Option Nat) (v : Val N)
    (hin : execQuery env data { bad := [], fwd := [c] } inner = .ok v) :
    execQuery env data {} (.select [.mk c inner] d sel (.table [c] alias c) wh gb hv ob lim off) =
    execQuery env (setKey c v data) {} (.select [] d sel (.table [c] alias c) wh gb hv ob lim off) :=
  cte_substitution env data {} c inner [] d sel _ wh gb hv ob lim off v (by simp [cteNames]) (by simp) (by simp)
    (by simpa [cteNames] using hin)

/-- **derived tables**: `FROM (inner) AS d` resolves to exactly what `FROM t AS d` resolves to when `t` holds the
    materialised result of `inner` — the rows AND the identifier `d` under which a join attributes ON columns to
    this side and stores its NULL extension (repair D52: a derived table had the empty identifier) -/
theorem derived_substitution (env : Env N) (data : Row N) (sc : Scope) (inner : Query N) (alias t : String)
    (v : Val N) (hv : v ≠ .null) (hin : execQuery env data sc inner = .ok v)
    (ht : t ∉ sc.fwd) (hb : t ∉ sc.bad) :
    evalFrom env data sc (.derived inner alias) =
    evalFrom env (setKey t v data) sc (.table [t] alias alias) := by
  have hin' : (do let p ← prepare env data sc inner; p.run p.frm) = .ok v := hin
  cases hp : prepare env data sc inner with
  | error e => simp [hp, bind, Except.bind] at hin'
  | ok p =>
    have hrun : p.run p.frm = .ok v := by simpa [hp, bind, Except.bind] using hin'
    simp only [evalFrom, hp, hrun, ht, hb, if_false, readPath_single, Val.get, lookup?_setKey_same, bind, Except.bind,
      pure, Except.pure, Except.map]

/-- **a sub-query in the select list contributes exactly what it returns when run standalone on
    the current row extended with the `<-` marker** -/
theorem subquery_standalone (env : Env N) (ctx : Ctx N) (cur : Row N) (q : Query N) :
    evalExpr env ctx cur (.subq q) =
      (execQuery env (withMarker cur ctx.data) {} q).map IVal.v := by
  simp only [evalExpr, execQuery, bind, Except.bind, pure, Except.pure, Except.map]
  cases prepare env (withMarker cur ctx.data) {} q with
  | error e => rfl
  | ok p =>
    simp only []

/-- the row an EXISTS sub-query sees for one element of the nested array: the element with the outer
    row's columns (and the marker) merged over it -/
def existsRow (elem cur' : Row N) : Row N := copyInto (copyInto [] elem) cur'

/-- **EXISTS** `(SELECT * FROM nested WHERE p)` is true iff some element of the row's nested array
    satisfies `p`, where `p` may mention the outer row's columns (they are merged into each element) -/
theorem exists_iff (env : Env N) (ctx : Ctx N) (cur : Row N) (t : String) (elems : List (Row N)) (p : Expr N)
    (ht : Val.get (withMarker cur ctx.data) t = .arr (elems.map Val.obj))
    (hwt : ∀ e ∈ elems, WT (existsRow e (withMarker cur ctx.data)) p) :
    evalExpr env ctx cur (.exists (.select [] false [.star] (.table [t] "" t) p [] (.bool true) [] none none)) =
      .ok (.v (.bool (elems.any (fun e => sem (existsRow e (withMarker cur ctx.data)) p)))) := by
  have hE : ("" : String).isEmpty = true := by decide
  simp only [evalExpr, prepare, evalCtes, evalFrom, cteNames, List.append_nil, List.not_mem_nil, if_false,
    readPath_single, ht, asArray, processAlias, hE, if_true, bind, Except.bind, pure, Except.pure]
  rw [mapE_eq_map_of_ok (g := fun v => match v with
      | Val.obj fs => Val.obj (existsRow fs (withMarker cur ctx.data)) | v => v)]
  · simp only [List.map_map, execLevel, bind, Except.bind]
    have hcomp : (List.map ((fun v => match v with
        | Val.obj fs => Val.obj (existsRow fs (withMarker cur ctx.data)) | v => v) ∘ Val.obj) elems) =
        (elems.map (fun e => existsRow e (withMarker cur ctx.data))).map Val.obj := by
      simp [List.map_map, Function.comp_def]
    rw [hcomp]
    rw [levelLoop_flat _ _ _ (elems.map (fun e => existsRow e (withMarker cur ctx.data))) (fun r => sem r p) (by
      intro r hr
      simp only [List.mem_map] at hr
      obtain ⟨e, he, rfl⟩ := hr
      simp [evalPred_sound env ⟨withMarker cur ctx.data, false, false, _, _⟩ rfl _ p (hwt e he), rawBool])]
    simp only [Bool.false_eq_true, if_false, isAllAggr, sortRows, List.isEmpty_nil, Bool.true_or, if_true,
      window_none, Bool.not_false, Bool.not_true, selectRowsWith, Bool.false_and, bind, Except.bind, pure, Except.pure]
    rw [mapE_eq_map_of_ok (g := fun v => match v with | Val.obj fs => starRow fs | v => v)]
    · simp only [List.isEmpty_map, List.filter_map, List.map_map]
      congr 3
      rw [Bool.eq_iff_iff]
      simp [List.isEmpty_iff, List.filter_eq_nil_iff, Function.comp_def]
    · intro x hx
      simp only [List.mem_map] at hx
      obtain ⟨r, _, rfl⟩ := hx
      simp [evalSel, starRow, Functor.map, Except.map]
  · intro x hx
    simp only [List.mem_map] at hx
    obtain ⟨e, _, rfl⟩ := hx
    simp [existsRow]

end Genql.C07
