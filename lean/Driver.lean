/-
  Driver — line-protocol driver for the correspondence check.  Reads one JSON object per line on
  stdin, evaluates the *model* (the same definitions the theorems are about, at `N := Float`), and
  writes one JSON object per line on stdout.  Trusted glue: JSON decoding/encoding only.
-/
import Lean.Data.Json
import Genql.Inst.FloatNum
import Genql.Model.Eval
import Genql.Model.Scan
import Genql.Model.Sanitize
import Genql.Model.Codec
import Genql.Model.Async
import Genql.Model.Selector
import Genql.Model.Vars
import Genql.Model.VarsQuery
open Lean Genql

abbrev V := Val Float

def bitsToFloat (s : String) : Except String Float :=
  match s.toNat? with
  | some n => .ok (Float.ofBits n.toUInt64)
  | none => .error s!"bad bits {s}"

partial def decVal (j : Json) : Except String V :=
  match j with
  | .null => .ok .null
  | .bool b => .ok (.bool b)
  | .num n =>
    if n.exponent == 0 then .ok (.num (Float.ofInt n.mantissa))
    else .ok (.num (Float.ofScientific n.mantissa.natAbs true n.exponent * (if n.mantissa < 0 then -1.0 else 1.0)))
  | .str s => .ok (.str s)
  | .arr xs => do
    let ys ← xs.toList.mapM decVal
    pure (.arr ys)
  | .obj kvs =>
    match kvs.toList with
    | [("#", .str bits)] => do
      let f ← bitsToFloat bits
      pure (.num f)
    | fields => do
      let fs ← fields.mapM fun (k, v) => do
        let v' ← decVal v
        pure (k, v')
      pure (.obj fs)

def decRow (j : Json) : Except String (Row Float) :=
  match decVal j with
  | .ok (.obj fs) => .ok fs
  | .ok _ => .error "expected object"
  | .error e => .error e

def intFits (x : Float) : Bool :=
  x.isFinite && x == x.floor && x.abs < 9007199254740992.0

partial def encVal (v : V) : Json :=
  match v with
  | .null => .null
  | .bool b => .bool b
  | .num n =>
    if intFits n && !(n == 0 && n.toBits != 0) then .num (JsonNumber.fromInt (n.toInt64.toInt))
    else Json.mkObj [("#", .str (toString n.toBits.toNat))]
  | .str s => .str s
  | .arr xs => .arr (xs.map encVal).toArray
  | .obj fs => Json.mkObj (fs.map fun (k, x) => (k, encVal x))

def strList (j : Json) : Except String (List String) := do
  let a ← j.getArr?
  a.toList.mapM fun (x : Json) => x.getStr?

def decBinOp : String → Except String BinOp
  | "plus" => .ok .plus | "minus" => .ok .minus | "mult" => .ok .mult | "div" => .ok .div
  | "intDiv" => .ok .intDiv | "mod" => .ok .mod | "bitAnd" => .ok .bitAnd | "bitOr" => .ok .bitOr
  | "bitXor" => .ok .bitXor | "shl" => .ok .shl | "shr" => .ok .shr
  | s => .error s!"binop {s}"

def decCmpOp : String → Except String CmpOp
  | "eq" => .ok .eq | "ne" => .ok .ne | "lt" => .ok .lt | "le" => .ok .le | "gt" => .ok .gt
  | "ge" => .ok .ge | "like" => .ok .like | "notLike" => .ok .notLike | "in" => .ok .in_
  | "notIn" => .ok .notIn
  | s => .error s!"cmpop {s}"

def decUnOp : String → Except String UnOp
  | "neg" => .ok .neg | "tilda" => .ok .tilda | "bang" => .ok .bang
  | s => .error s!"unop {s}"

def decIsOp : String → Except String IsOp
  | "null" => .ok .null | "notNull" => .ok .notNull | "true" => .ok .true_ | "notFalse" => .ok .notFalse
  | "notTrue" => .ok .notTrue | "false" => .ok .false_
  | s => .error s!"isop {s}"

def decQual : String → Except String Qual
  | "" => .ok .none | "async" => .ok .async | "spin" => .ok .spin | "spinasync" => .ok .spinasync
  | "once" => .ok .once | "scoped" => .ok .scoped
  | s => .error s!"qual {s}"

def optNat (j : Json) : Except String (Option Nat) :=
  match j with
  | .null => .ok none
  | j => do let n ← j.getNat?; pure (some n)

mutual
partial def decExpr (j : Json) : Except String (Expr Float) := do
  let a ← j.getArr?
  let tag ← (a[0]?.getD Json.null).getStr?
  let arg (i : Nat) : Json := a[i]?.getD Json.null
  match tag with
  | "null" => pure .null
  | "bool" => do let b ← (arg 1).getBool?; pure (.bool b)
  | "num" => do
    match ← decVal (arg 1) with
    | .num f => pure (.num f)
    | _ => throw "num"
  | "str" => do let s ← (arg 1).getStr?; pure (.str s)
  | "col" => do let p ← strList (arg 1); pure (.col p)
  | "selc" => do let t ← (arg 1).getStr?; pure (.selc t)
  | "and" => do pure (.and (← decExpr (arg 1)) (← decExpr (arg 2)))
  | "or" => do pure (.or (← decExpr (arg 1)) (← decExpr (arg 2)))
  | "not" => do pure (.not (← decExpr (arg 1)))
  | "cmp" => do pure (.cmp (← decCmpOp (← (arg 1).getStr?)) (← decExpr (arg 2)) (← decExpr (arg 3)))
  | "between" => do pure (.between (← (arg 1).getBool?) (← decExpr (arg 2)) (← decExpr (arg 3)) (← decExpr (arg 4)))
  | "bin" => do pure (.bin (← decBinOp (← (arg 1).getStr?)) (← decExpr (arg 2)) (← decExpr (arg 3)))
  | "un" => do pure (.un (← decUnOp (← (arg 1).getStr?)) (← decExpr (arg 2)))
  | "is" => do pure (.is (← decIsOp (← (arg 1).getStr?)) (← decExpr (arg 2)))
  | "tuple" => do
    let xs ← (← (arg 1).getArr?).toList.mapM decExpr
    pure (.tuple xs)
  | "case" => do
    let ws ← (← (arg 1).getArr?).toList.mapM fun (w : Json) => do
      let p ← w.getArr?
      pure (When.mk (← decExpr (p[0]?.getD Json.null)) (← decExpr (p[1]?.getD Json.null)))
    pure (.case ws (← decExpr (arg 2)))
  | "func" => do
    let xs ← (← (arg 3).getArr?).toList.mapM decExpr
    pure (.func (← decQual (← (arg 1).getStr?)) (← (arg 2).getStr?) xs)
  | "aggr" => do
    let xs ← (← (arg 2).getArr?).toList.mapM decExpr
    pure (.aggr (← (arg 1).getStr?) xs)
  | "subq" => do pure (.subq (← decQuery (arg 1)))
  | "exists" => do pure (.exists (← decQuery (arg 1)))
  | t => throw s!"expr tag {t}"

partial def decSel (j : Json) : Except String (SelItem Float) := do
  let a ← j.getArr?
  let tag ← (a[0]?.getD Json.null).getStr?
  match tag with
  | "star" => pure .star
  | "item" => do
    pure (.item (← decExpr (a[1]?.getD Json.null)) (← (a[2]?.getD Json.null).getStr?) (← (a[3]?.getD Json.null).getStr?))
  | t => throw s!"sel tag {t}"

partial def decFrom (j : Json) : Except String (From Float) := do
  let a ← j.getArr?
  let tag ← (a[0]?.getD Json.null).getStr?
  let arg (i : Nat) : Json := a[i]?.getD Json.null
  match tag with
  | "table" => do pure (.table (← strList (arg 1)) (← (arg 2).getStr?) (← (arg 3).getStr?))
  | "derived" => do pure (.derived (← decQuery (arg 1)) (← (arg 2).getStr?))
  | "tablesel" => do pure (.tableSel (← (arg 1).getStr?) (← (arg 2).getStr?) (← (arg 3).getStr?))
  | "join" => do
    let jt := arg 1
    let b (k : String) : Except String Bool := do (← jt.getObjVal? k).getBool?
    let ty : JoinType := { inner := ← b "inner", left := ← b "left", straight := ← b "straight", parallel := ← b "parallel" }
    pure (.join ty (← decFrom (arg 2)) (← decFrom (arg 3)) (← decExpr (arg 4)))
  | t => throw s!"from tag {t}"

partial def decCtes (j : Json) : Except String (List (Cte Float)) := do
  (← j.getArr?).toList.mapM fun (c : Json) => do
    let p ← c.getArr?
    pure (Cte.mk (← (p[0]?.getD Json.null).getStr?) (← decQuery (p[1]?.getD Json.null)))

partial def decOrder (j : Json) : Except String (List (List String × Bool)) := do
  (← j.getArr?).toList.mapM fun (o : Json) => do
    let p ← o.getArr?
    pure ((← strList (p[0]?.getD Json.null)), (← (p[1]?.getD Json.null).getBool?))

partial def decQuery (j : Json) : Except String (Query Float) := do
  let a ← j.getArr?
  let tag ← (a[0]?.getD Json.null).getStr?
  let arg (i : Nat) : Json := a[i]?.getD Json.null
  match tag with
  | "select" => do
    let sel ← (← (arg 3).getArr?).toList.mapM decSel
    let gb ← (← (arg 6).getArr?).toList.mapM fun (g : Json) => do
      let p ← g.getArr?
      pure ((← (p[0]?.getD Json.null).getStr?), (← strList (p[1]?.getD Json.null)))
    pure (.select (← decCtes (arg 1)) (← (arg 2).getBool?) sel (← decFrom (arg 4)) (← decExpr (arg 5)) gb
      (← decExpr (arg 7)) (← decOrder (arg 8)) (← optNat (arg 9)) (← optNat (arg 10)))
  | "union" => do
    pure (.union (← decCtes (arg 1)) (← decQuery (arg 2)) (← decQuery (arg 3)) (← (arg 4).getBool?)
      (← decOrder (arg 5)) (← optNat (arg 6)) (← optNat (arg 7)))
  | t => throw s!"query tag {t}"
end

def errName : Err → String
  | .error => "error" | .panic => "panic" | .oom => "oom"

def outcome (id : Json) (r : R V) : Json :=
  match r with
  | .ok v => Json.mkObj [("id", id), ("r", "ok"), ("v", encVal v)]
  | .error e => Json.mkObj [("id", id), ("r", errName e)]

/-- `(*Query).Exec()`: an array result is returned as is, anything else is wrapped -/
def apiResult (r : R V) : R V :=
  match r with
  | .ok (.arr xs) => .ok (.arr xs)
  | .ok v => .ok (.arr [v])
  | .error .panic => .error .error   -- the API boundary recovers every panic into an error
  | .error e => .error e

/-- run the wait-group protocol model on a schedule: `f name x = x` (the harness's VF_SLOW returns
    its argument), arguments are integers -/
def asyncOp (j : Json) : Except String Json := do
  let rows ← (← j.getObjVal? "rows").getNat?
  let itemsJ ← (← j.getObjVal? "items").getArr?
  let items ← itemsJ.toList.mapM fun (it : Json) => do
    let a ← it.getArr?
    let st ← (a[0]?.getD Json.null).getStr?
    let nm ← (a[1]?.getD Json.null).getNat?
    let strat ← (match st with
      | "plain" => pure Async.Strategy.plain | "async" => pure .async | "spin" => pure .spin
      | "spinasync" => pure .spinasync | "once" => pure .once | o => throw s!"strategy {o}")
    pure ({ strat := strat, name := nm } : Async.Item)
  let imm ← (← (← j.getObjVal? "imm").getArr?).toList.mapM fun (b : Json) => b.getBool?
  let args ← (← (← j.getObjVal? "args").getArr?).toList.mapM fun (b : Json) => b.getInt?
  let sched ← (← (← j.getObjVal? "sched").getArr?).toList.mapM fun (b : Json) => b.getNat?
  let q : Async.Query Int Int :=
    { rows := rows, items := items, f := (fun _ x => x),
      args := (fun c => args.getD c 0), imm := (fun n => imm.getD n false) }
  let s := Async.run q Async.init sched
  let total := q.total
  let cells := (List.range total).map fun c =>
    match s.col c with
    | .absent => Json.str "absent"
    | .ptr => Json.str "ptr"
    | .val none => Json.null
    | .val (some v) => Json.num (JsonNumber.fromInt v)
  let phase := match s.phase with
    | .run _ => "run" | .post _ => "post" | .returned => "returned" | .failed => "failed"
  pure (Json.mkObj [("r", "ok"), ("phase", phase), ("wg", Json.num (JsonNumber.fromNat s.wg)), ("cols", Json.arr cells.toArray),
    ("invoked", Json.arr ((List.range total).map fun c => Json.num (JsonNumber.fromNat (s.invoked c))).toArray),
    ("done", Json.arr ((List.range total).map fun c => Json.bool (s.task c == .done)).toArray)])

def handle (j : Json) : Json :=
  let id := (j.getObjVal? "id").toOption.getD Json.null
  let res : Except String Json := do
    let op ← (← j.getObjVal? "op").getStr?
    match op with
    | "query" => do
      let doc ← decRow (← j.getObjVal? "doc")
      let q ← decQuery (← j.getObjVal? "q")
      let consts ← (match j.getObjVal? "consts" with
        | .ok .null => pure none
        | .ok c => do let r ← decRow c; pure (some r)
        | .error _ => pure none)
      let asis := ((j.getObjVal? "asis").toOption.bind (·.getBool?.toOption)).getD false
      let wrapped := ((j.getObjVal? "wrapped").toOption.bind (·.getBool?.toOption)).getD false
      let failOn ← (match j.getObjVal? "failOn" with
        | .ok .null => pure none
        | .ok c => do let r ← decVal c; pure (some r)
        | .error _ => pure none)
      let env : Env Float := { dfx := if asis then { concatNilText := true } else .none, constants := consts, failOn := failOn }
      let data : Row Float := if wrapped then [("root", .obj doc)] else doc
      pure (outcome id (apiResult (execQuery env data {} q)))
    | "dq2bt" => do
      let t ← (← j.getObjVal? "text").getStr?
      match Scan.dq2btStr t with
      | some r => pure (Json.mkObj [("id", id), ("r", "ok"), ("v", Json.str r)])
      | none => pure (Json.mkObj [("id", id), ("r", "error")])
    | "fixarr" => do
      let t ← (← j.getObjVal? "text").getStr?
      match Scan.fixArrStr t with
      | some r => pure (Json.mkObj [("id", id), ("r", "ok"), ("v", Json.str r)])
      | none => pure (Json.mkObj [("id", id), ("r", "error")])
    | "sanitize" => do
      let t ← (← j.getObjVal? "text").getStr?
      let raw ← (← j.getObjVal? "args").getArr?
      let args ← raw.toList.mapM fun (a : Json) => do
        let ty ← (← a.getObjVal? "t").getStr?
        let v ← (← a.getObjVal? "v").getStr?
        match ty with
        | "nil" => pure San.Arg.null
        | "int64" => match v.toInt? with
          | some i => pure (San.Arg.int i)
          | none => throw "bad int"
        | "floattext" => pure (San.Arg.float v)
        | "bool" => pure (San.Arg.bool (v == "true"))
        | "string" => pure (San.Arg.str v)
        | o => throw s!"bad arg type {o}"
      match San.sanitizeStr t args with
      | some r => pure (Json.mkObj [("id", id), ("r", "ok"), ("v", Json.str r)])
      | none => pure (Json.mkObj [("id", id), ("r", "error")])
    | "codec" => do
      -- given the hex text of some bytes: the three encodings of those bytes, and the decodings of
      -- the given texts (for the decoder side)
      let hex ← (← j.getObjVal? "hex").getStr?
      match Codec.hexDecS hex with
      | none => pure (Json.mkObj [("id", id), ("r", "error")])
      | some bs =>
        let dec (k : String) (f : String → Option (List UInt8)) : Json :=
          match (j.getObjVal? k).toOption.bind (·.getStr?.toOption) with
          | some t => match f t with
            | some out => Json.str (Codec.hexEncS out)
            | none => Json.str "#error"
          | none => Json.null
        pure (Json.mkObj [("id", id), ("r", "ok"), ("hex", Json.str (Codec.hexEncS bs)),
          ("base32", Json.str (Codec.b32EncS bs)), ("base64", Json.str (Codec.b64uEncS bs)),
          ("dec32", dec "d32" Codec.b32DecS), ("dec64", dec "d64" Codec.b64uDecS), ("dechex", dec "dhex" Codec.hexDecS)])
    | "reader" => do
      let doc ← decVal (← j.getObjVal? "doc")
      let sel ← (← j.getObjVal? "selector").getStr?
      -- `topName` / `topImpl`: the registry as it is after `RegisterTopLevelFunction(topName, <topImpl>)`
      let topName := (j.getObjValAs? String "topName").toOption.getD ""
      let topImpl := (j.getObjValAs? String "topImpl").toOption.getD ""
      match Sel.testImpl (N := Float) topImpl with
      | some g =>
        if topName = "" then pure (outcome id (Sel.execReader doc sel))
        else pure (outcome id (Sel.execReaderWith (Sel.register Sel.builtins topName g) doc sel))
      | none => pure (outcome id (Sel.execReader doc sel))
    | "vars" => do
      let st ← decRow (← j.getObjVal? "store")
      let opsJ ← (← j.getObjVal? "ops").getArr?
      let ops ← opsJ.toList.mapM fun (o : Json) => do
        let a ← o.getArr?
        let tag ← (a[0]?.getD Json.null).getStr?
        let k ← (a[1]?.getD Json.null).getStr?
        match tag with
        | "set" => do
          let v ← decVal (a[2]?.getD Json.null)
          pure (Vars.VOp.set k v)
        | "get" => pure (Vars.VOp.get k)
        | t => throw s!"vars op {t}"
      let (st', cols) := Vars.run st ops
      let colsJ := cols.map fun c => match c with
        | none => Json.str "#none"
        | some none => Json.null
        | some (some v) => encVal v
      pure (Json.mkObj [("id", id), ("r", "ok"), ("store", encVal (.obj st')), ("cols", Json.arr colsJ.toArray)])
    | "varsquery" => do
      -- the select list over the flat table `t`, `passes` times in a row (a UNION ALL of the query with itself runs it
      -- twice), the variable map threaded through: `Model/VarsQuery.rowsVars`
      let doc ← decRow (← j.getObjVal? "doc")
      let st ← decRow (← j.getObjVal? "store")
      let selJ ← (← j.getObjVal? "sel").getArr?
      let sel ← selJ.toList.mapM decSel
      let passes ← (← j.getObjVal? "passes").getNat?
      let rows : List (Row Float) := match Val.get doc "t" with
        | .arr xs => xs.filterMap fun x => match x with | .obj fs => some fs | _ => none
        | _ => []
      let env : Env Float := { dfx := .none, constants := none, failOn := none }
      let ctx : Ctx Float := { data := doc, hard := false, grouped := false, matched := rows.map Val.obj, fromLen := rows.length }
      let rec go (n : Nat) (st : Row Float) (acc : List V) : R (List V × Row Float) :=
        match n with
        | 0 => .ok (acc, st)
        | n + 1 =>
          match VarsQ.rowsVars env ctx sel rows st with
          | .ok (outs, st', _) => go n st' (acc ++ outs)
          | .error e => .error e
      match go passes st [] with
      | .ok (outs, st') => pure (Json.mkObj [("id", id), ("r", "ok"), ("v", encVal (.arr outs)), ("store", encVal (.obj st'))])
      | .error e => pure (Json.mkObj [("id", id), ("r", errName e)])
    | "async" => do
      let o ← asyncOp j
      pure (o.setObjVal! "id" id)
    | "compare" => do
      let dec (k : String) : Except String (Option Cmp.GoVal) := do
        let o ← j.getObjVal? k
        let t ← (← o.getObjVal? "t").getStr?
        let v ← (← o.getObjVal? "v").getStr?
        pure (Cmp.parseGoVal t v)
      match ← dec "a", ← dec "b" with
      | some a, some b =>
        match Cmp.compareGo a b with
        | some c => pure (Json.mkObj [("id", id), ("r", "ok"), ("v", Json.num (JsonNumber.fromInt c))])
        | none => pure (Json.mkObj [("id", id), ("r", "oom")])
      | _, _ => pure (Json.mkObj [("id", id), ("r", "oom")])
    | o => throw s!"unknown op {o}"
  match res with
  | .ok j => j
  | .error e => Json.mkObj [("id", id), ("r", "bad-op"), ("msg", e)]

partial def loop (h : IO.FS.Stream) (out : IO.FS.Stream) : IO Unit := do
  let line ← h.getLine
  if line.isEmpty then return ()
  let t := line.trimAscii.toString
  if t.isEmpty then loop h out
  else
    match Json.parse t with
    | .ok j => out.putStrLn (handle j).compress
    | .error e => out.putStrLn (Json.mkObj [("r", "bad-json"), ("msg", e)]).compress
    loop h out

def main : IO Unit := do
  let i ← IO.getStdin
  let o ← IO.getStdout
  loop i o
  o.flush
