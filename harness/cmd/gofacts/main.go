// gofacts re-derives structural facts from the Go sources of /repo as they are NOW (go/ast, no
// type checker) and emits them as a Lean file.  The facts are instantiated into proof obligations
// (Genql/Obligations/*.lean) that are re-checked on every run: if the code changes shape, the
// obligation is checked against what the code says now.
//
//	gofacts <repo dir> <out Facts.lean> <out facts.json>
package main

import (
	"encoding/json"
	"fmt"
	"go/ast"
	"go/parser"
	"go/printer"
	"go/token"
	"os"
	"path/filepath"
	"sort"
	"strconv"
	"strings"
	"unicode/utf8"
)

type Event struct {
	Kind string // lock unlock read write | wgAdd go invoke store wgDone wgWait post | ret
	Arg  string
}

type pathSet struct {
	open   [][]Event // paths still running
	closed [][]Event // paths that returned
}

type extractor struct {
	fset  *token.FileSet
	files map[string]*ast.File
	funcs map[string]*ast.FuncDecl // by name (package genql only; methods as Recv.Name)
}

func load(dir string) *extractor {
	ex := &extractor{fset: token.NewFileSet(), files: map[string]*ast.File{}, funcs: map[string]*ast.FuncDecl{}}
	entries, err := os.ReadDir(dir)
	if err != nil {
		panic(err)
	}
	for _, e := range entries {
		n := e.Name()
		if e.IsDir() || !strings.HasSuffix(n, ".go") || strings.HasSuffix(n, "_test.go") {
			continue
		}
		f, err := parser.ParseFile(ex.fset, filepath.Join(dir, n), nil, parser.ParseComments)
		if err != nil {
			panic(err)
		}
		// files behind the verification build tag are hooks, not library code
		skip := false
		for _, cg := range f.Comments {
			for _, c := range cg.List {
				if strings.HasPrefix(c.Text, "//go:build") && strings.Contains(c.Text, "verif") && c.Pos() < f.Package {
					skip = true
				}
			}
		}
		if skip {
			continue
		}
		ex.files[n] = f
		for _, d := range f.Decls {
			if fd, ok := d.(*ast.FuncDecl); ok {
				name := fd.Name.Name
				if fd.Recv != nil && len(fd.Recv.List) == 1 {
					name = recvName(fd.Recv.List[0].Type) + "." + name
				}
				ex.funcs[name] = fd
			}
		}
	}
	return ex
}

func recvName(e ast.Expr) string {
	switch t := e.(type) {
	case *ast.StarExpr:
		return recvName(t.X)
	case *ast.Ident:
		return t.Name
	}
	return "?"
}

// ---------------------------------------------------------------- control-flow path enumeration

// evFn maps one "simple" node (expression statement, assignment, …) to its events in evaluation order.
type evFn func(n ast.Node) []Event

func clone(p []Event) []Event { return append([]Event(nil), p...) }

func seq(ps pathSet, evs []Event) pathSet {
	for i := range ps.open {
		ps.open[i] = append(ps.open[i], evs...)
	}
	return ps
}

func fork(ps pathSet) pathSet {
	out := pathSet{closed: ps.closed}
	for _, p := range ps.open {
		out.open = append(out.open, clone(p))
	}
	return out
}

func merge(a, b pathSet) pathSet {
	out := pathSet{}
	out.open = append(append(out.open, a.open...), b.open...)
	seen := map[string]bool{}
	for _, c := range append(append([][]Event{}, a.closed...), b.closed...) {
		k := fmt.Sprint(c)
		if !seen[k] {
			seen[k] = true
			out.closed = append(out.closed, c)
		}
	}
	return out
}

// walk enumerates acyclic paths: `if` = both branches, loops = zero or one iteration, `switch` =
// every clause, `return` ends a path.  Deferred calls are collected by the caller.
func (ex *extractor) walk(stmts []ast.Stmt, ps pathSet, ev evFn, defers *[]ast.Node) pathSet {
	for _, s := range stmts {
		if len(ps.open) == 0 {
			break
		}
		ps = ex.walkStmt(s, ps, ev, defers)
	}
	return ps
}

func (ex *extractor) walkStmt(s ast.Stmt, ps pathSet, ev evFn, defers *[]ast.Node) pathSet {
	switch t := s.(type) {
	case *ast.BlockStmt:
		return ex.walk(t.List, ps, ev, defers)
	case *ast.IfStmt:
		if t.Init != nil {
			ps = ex.walkStmt(t.Init, ps, ev, defers)
		}
		ps = seq(ps, ev(t.Cond))
		thenPs := ex.walk(t.Body.List, fork(pathSet{open: ps.open}), ev, defers)
		var elsePs pathSet
		if t.Else != nil {
			elsePs = ex.walkStmt(t.Else, fork(pathSet{open: ps.open}), ev, defers)
		} else {
			elsePs = fork(pathSet{open: ps.open})
		}
		m := merge(thenPs, elsePs)
		m.closed = append(ps.closed, m.closed...)
		return m
	case *ast.ForStmt:
		if t.Init != nil {
			ps = ex.walkStmt(t.Init, ps, ev, defers)
		}
		if t.Cond != nil {
			ps = seq(ps, ev(t.Cond))
		}
		zero := fork(pathSet{open: ps.open})
		one := ex.walk(t.Body.List, fork(pathSet{open: ps.open}), ev, defers)
		m := merge(zero, one)
		m.closed = append(ps.closed, m.closed...)
		return m
	case *ast.RangeStmt:
		ps = seq(ps, ev(t.X))
		zero := fork(pathSet{open: ps.open})
		one := ex.walk(t.Body.List, fork(pathSet{open: ps.open}), ev, defers)
		m := merge(zero, one)
		m.closed = append(ps.closed, m.closed...)
		return m
	case *ast.SwitchStmt:
		if t.Init != nil {
			ps = ex.walkStmt(t.Init, ps, ev, defers)
		}
		if t.Tag != nil {
			ps = seq(ps, ev(t.Tag))
		}
		return ex.clauses(t.Body.List, ps, ev, defers)
	case *ast.TypeSwitchStmt:
		if t.Init != nil {
			ps = ex.walkStmt(t.Init, ps, ev, defers)
		}
		ps = ex.walkStmt(t.Assign, ps, ev, defers)
		return ex.clauses(t.Body.List, ps, ev, defers)
	case *ast.ReturnStmt:
		for _, r := range t.Results {
			ps = seq(ps, ev(r))
		}
		ps.closed = append(ps.closed, ps.open...)
		ps.open = nil
		return ps
	case *ast.DeferStmt:
		*defers = append(*defers, t.Call)
		return seq(ps, []Event{{"defer", strconv.Itoa(len(*defers) - 1)}})
	case *ast.LabeledStmt:
		return ex.walkStmt(t.Stmt, ps, ev, defers)
	case *ast.BranchStmt: // break / continue / goto: treated as fallthrough of the enclosing construct
		return ps
	default:
		return seq(ps, ev(s))
	}
}

func (ex *extractor) clauses(list []ast.Stmt, ps pathSet, ev evFn, defers *[]ast.Node) pathSet {
	out := pathSet{closed: ps.closed}
	hasDefault := false
	for _, c := range list {
		cc, ok := c.(*ast.CaseClause)
		if !ok {
			continue
		}
		if cc.List == nil {
			hasDefault = true
		}
		branch := fork(pathSet{open: ps.open})
		for _, e := range cc.List {
			branch = seq(branch, ev(e))
		}
		branch = ex.walk(cc.Body, branch, ev, defers)
		out = merge(out, branch)
	}
	if !hasDefault {
		out = merge(out, fork(pathSet{open: ps.open}))
	}
	return out
}

// allPaths: every path of a body; the deferred calls a path actually reached run at its exit (LIFO).
func (ex *extractor) allPaths(body *ast.BlockStmt, ev evFn) [][]Event {
	return ex.pathsWithDefers(body, ev, false)
}

func (ex *extractor) pathsWithDefers(body *ast.BlockStmt, ev evFn, expandLits bool) [][]Event {
	var defers []ast.Node
	ps := ex.walk(body.List, pathSet{open: [][]Event{{}}}, ev, &defers)
	all := append(append([][]Event{}, ps.closed...), ps.open...)
	var out [][]Event
	for _, p := range all {
		var body []Event
		var reached []int
		for _, e := range p {
			if e.Kind == "defer" {
				i, _ := strconv.Atoi(e.Arg)
				reached = append(reached, i)
				continue
			}
			body = append(body, e)
		}
		tails := [][]Event{{}}
		for k := len(reached) - 1; k >= 0; k-- {
			call := defers[reached[k]].(*ast.CallExpr)
			var opts [][]Event
			if lit, ok := call.Fun.(*ast.FuncLit); ok && expandLits {
				opts = ex.pathsWithDefers(lit.Body, ev, expandLits)
			} else {
				opts = [][]Event{ev(call)}
			}
			var next [][]Event
			for _, t := range tails {
				for _, o := range opts {
					next = append(next, append(clone(t), o...))
				}
			}
			tails = next
		}
		for _, t := range tails {
			out = append(out, append(clone(body), t...))
		}
	}
	return dedupPaths(out)
}

// ---------------------------------------------------------------- lock / access events

type lockCfg struct {
	mutexes map[string]string // identifier -> model name
	vars    map[string]bool
	inline  map[string]*ast.FuncLit // local closures to inline at call sites
}

// events of one node in evaluation order: Lock/Unlock calls on the configured mutexes, reads and
// writes of the configured variables
func (cfg *lockCfg) events(ex *extractor) evFn {
	var ev evFn
	ev = func(n ast.Node) []Event {
		var out []Event
		if n == nil {
			return nil
		}
		switch t := n.(type) {
		case *ast.AssignStmt:
			for _, r := range t.Rhs {
				out = append(out, ev(r)...)
			}
			for _, l := range t.Lhs {
				out = append(out, cfg.lhs(l, ev)...)
			}
			return out
		case *ast.IncDecStmt:
			out = append(out, ev(t.X)...)
			out = append(out, cfg.lhs(t.X, ev)...)
			return out
		case *ast.ExprStmt:
			return ev(t.X)
		case *ast.DeclStmt:
			ast.Inspect(t, func(m ast.Node) bool {
				if vs, ok := m.(*ast.ValueSpec); ok {
					for _, v := range vs.Values {
						out = append(out, ev(v)...)
					}
					return false
				}
				return true
			})
			return out
		case *ast.GoStmt, *ast.FuncLit:
			return nil // other goroutines / closures are analysed on their own
		case *ast.CallExpr:
			if sel, ok := t.Fun.(*ast.SelectorExpr); ok {
				if name, ok := cfg.mutexes[exprText(sel.X)]; ok {
					switch sel.Sel.Name {
					case "Lock", "RLock":
						return []Event{{"lock", name}}
					case "Unlock", "RUnlock":
						return []Event{{"unlock", name}}
					}
				}
			}
			if id, ok := t.Fun.(*ast.Ident); ok {
				if _, ok := cfg.inline[id.Name]; ok {
					for _, a := range t.Args {
						out = append(out, ev(a)...)
					}
					// inline the closure: single representative path set is flattened by the caller
					return append(out, Event{"call", id.Name})
				}
				if id.Name == "delete" && len(t.Args) > 0 && cfg.vars[exprText(t.Args[0])] {
					for _, a := range t.Args[1:] {
						out = append(out, ev(a)...)
					}
					return append(out, Event{"write", exprText(t.Args[0])})
				}
			}
			out = append(out, ev(t.Fun)...)
			for _, a := range t.Args {
				out = append(out, ev(a)...)
			}
			return out
		case *ast.Ident:
			if cfg.vars[t.Name] {
				return []Event{{"read", t.Name}}
			}
			return nil
		}
		// generic: children in source order
		ast.Inspect(n, func(m ast.Node) bool {
			if m == nil || m == n {
				return true
			}
			out = append(out, ev(m)...)
			return false
		})
		return out
	}
	return ev
}

func (cfg *lockCfg) lhs(l ast.Expr, ev evFn) []Event {
	switch t := l.(type) {
	case *ast.Ident:
		if cfg.vars[t.Name] {
			return []Event{{"write", t.Name}}
		}
	case *ast.IndexExpr:
		out := ev(t.Index)
		if id, ok := t.X.(*ast.Ident); ok && cfg.vars[id.Name] {
			return append(out, Event{"write", id.Name})
		}
		return append(out, ev(t.X)...)
	default:
		return ev(l)
	}
	return nil
}

// source text of an expression (go/printer), for the decision tables
func srcText(e ast.Expr) string {
	var sb strings.Builder
	if err := printer.Fprint(&sb, token.NewFileSet(), e); err != nil {
		return "?"
	}
	return strings.Join(strings.Fields(sb.String()), " ")
}

func exprText(e ast.Expr) string {
	switch t := e.(type) {
	case *ast.Ident:
		return t.Name
	case *ast.SelectorExpr:
		return exprText(t.X) + "." + t.Sel.Name
	case *ast.StarExpr:
		return "*" + exprText(t.X)
	case *ast.ParenExpr:
		return exprText(t.X)
	}
	return "?"
}

// expand `call f` events with the paths of the inlined closure
func expandCalls(paths [][]Event, closures map[string][][]Event) [][]Event {
	var out [][]Event
	for _, p := range paths {
		cur := [][]Event{{}}
		for _, e := range p {
			if e.Kind == "call" {
				var next [][]Event
				for _, c := range cur {
					for _, cp := range closures[e.Arg] {
						next = append(next, append(clone(c), cp...))
					}
				}
				cur = next
			} else {
				for i := range cur {
					cur[i] = append(cur[i], e)
				}
			}
		}
		out = append(out, cur...)
	}
	seen := map[string]bool{}
	var ded [][]Event
	for _, p := range out {
		k := fmt.Sprint(p)
		if !seen[k] {
			seen[k] = true
			ded = append(ded, p)
		}
	}
	sort.Slice(ded, func(i, j int) bool { return fmt.Sprint(ded[i]) < fmt.Sprint(ded[j]) })
	return ded
}

func leanInstrs(paths [][]Event) string {
	var ps []string
	for _, p := range paths {
		var es []string
		for _, e := range p {
			es = append(es, fmt.Sprintf(".%s %s", e.Kind, strconv.Quote(e.Arg)))
		}
		ps = append(ps, "["+strings.Join(es, ", ")+"]")
	}
	return "[" + strings.Join(ps, ",\n    ") + "]"
}

// ---------------------------------------------------------------- individual fact groups

type Facts struct {
	ExecReaderPaths   [][]Event              `json:"execReaderPaths"`
	CacheAccessors    []string               `json:"cacheAccessors"`
	ParallelWorkers   map[string][][]Event   `json:"parallelWorkerPaths"`
	RegistryWriters   map[string][]string    `json:"registryWriters"`
	PackageVarWriters map[string][]string    `json:"packageVarWriters"`
	PackageVarUsers   map[string][]string    `json:"packageVarUsers"`
	SubPackageVars    map[string][]string    `json:"subPackageVars"`
	Decisions         map[string][]string    `json:"decisions"` // straight-line decision lists (sort comparator, window arithmetic)
	OpTables          map[string][][2]string `json:"opTables"`  // per function: (operator case, what the case computes) // package-level variables of the sub-packages (compare, sanitizer, …)
	VarsAccess        map[string][][]Event   `json:"varsAccessPaths"`
	AsyncEvents       map[string][]string    `json:"asyncEvents"`
	AsyncUnwind       map[string][]string    `json:"asyncUnwind"` // what runs, in order, when the called function panics
	NestedForwarders  []string               `json:"nestedForwarders"`
	Registry          [][3]string            `json:"registry"` // name, immediate, guard arity ("" = none)
	WriteSites        []string               `json:"writeSites"`
	PanicSites        []string               `json:"panicSites"`
	GoSites           []string               `json:"goSites"`
	RecoverFuncs      []string               `json:"recoverFuncs"`
	SwallowSites      []string               `json:"swallowSites"`
}

func (ex *extractor) execReader(f *Facts) {
	fd := ex.funcs["ExecReader"]
	if fd == nil {
		return
	}
	cfg := &lockCfg{mutexes: map[string]string{"mut": "mut"}, vars: map[string]bool{"cache": true}}
	f.ExecReaderPaths = ex.allPaths(fd.Body, cfg.events(ex))
	// who else touches the cache?
	acc := map[string]bool{}
	for name, d := range ex.funcs {
		if d.Body == nil {
			continue
		}
		ast.Inspect(d.Body, func(n ast.Node) bool {
			if id, ok := n.(*ast.Ident); ok && id.Name == "cache" && ex.isPkgVarRef(id) {
				acc[name] = true
			}
			return true
		})
	}
	for k := range acc {
		f.CacheAccessors = append(f.CacheAccessors, k)
	}
	sort.Strings(f.CacheAccessors)
}

// an identifier that refers to a package-level variable: resolved to its (package-level) declaration in
// the same file, or unresolved (declared in another file of the package); a local of the same name is
// resolved to its local declaration and therefore excluded
func (ex *extractor) isPkgVarRef(id *ast.Ident) bool {
	if id.Obj == nil {
		return true
	}
	if vs, ok := id.Obj.Decl.(*ast.ValueSpec); ok && ex.isPackageLevel(vs) {
		return true
	}
	return false
}

func (ex *extractor) isPackageLevel(vs *ast.ValueSpec) bool {
	for _, file := range ex.files {
		for _, d := range file.Decls {
			if gd, ok := d.(*ast.GenDecl); ok {
				for _, s := range gd.Specs {
					if s == vs {
						return true
					}
				}
			}
		}
	}
	return false
}

func (ex *extractor) parallelWorkers(f *Facts) {
	f.ParallelWorkers = map[string][][]Event{}
	for _, fn := range []string{"Join.ParallelJoinFunc", "Join.ParallelHashJoinFunc"} {
		fd := ex.funcs[fn]
		if fd == nil {
			continue
		}
		cfg := &lockCfg{mutexes: map[string]string{"mut": "jmut"}, vars: map[string]bool{"slice": true, "firstErr": true},
			inline: map[string]*ast.FuncLit{}}
		closures := map[string][][]Event{}
		// local closures (fail := func(err error) {...})
		ast.Inspect(fd.Body, func(n ast.Node) bool {
			if as, ok := n.(*ast.AssignStmt); ok && len(as.Lhs) == 1 && len(as.Rhs) == 1 {
				if id, ok := as.Lhs[0].(*ast.Ident); ok {
					if lit, ok := as.Rhs[0].(*ast.FuncLit); ok {
						cfg.inline[id.Name] = lit
					}
				}
			}
			return true
		})
		for name, lit := range cfg.inline {
			closures[name] = ex.allPaths(lit.Body, cfg.events(ex))
		}
		// the goroutine bodies
		var workers [][]Event
		ast.Inspect(fd.Body, func(n ast.Node) bool {
			if g, ok := n.(*ast.GoStmt); ok {
				if lit, ok := g.Call.Fun.(*ast.FuncLit); ok {
					// deferred closures inside the goroutine (recover handler calling fail)
					ev := cfg.events(ex)
					paths := ex.allPathsWithDeferredLits(lit.Body, ev)
					workers = append(workers, expandCalls(paths, closures)...)
				}
			}
			return true
		})
		// drop wait-group noise: keep only lock/unlock/read/write
		f.ParallelWorkers[fn] = dedupPaths(workers)
	}
}

// like allPaths, but a deferred *function literal* contributes the paths of its body
func (ex *extractor) allPathsWithDeferredLits(body *ast.BlockStmt, ev evFn) [][]Event {
	return ex.pathsWithDefers(body, ev, true)
}

func dedupPaths(ps [][]Event) [][]Event {
	seen := map[string]bool{}
	var out [][]Event
	for _, p := range ps {
		k := fmt.Sprint(p)
		if !seen[k] {
			seen[k] = true
			out = append(out, p)
		}
	}
	sort.Slice(out, func(i, j int) bool { return fmt.Sprint(out[i]) < fmt.Sprint(out[j]) })
	return out
}

// functions/immediateFunctions/topLevelFunctions/cache/mut: which functions assign to them
func (ex *extractor) packageVars(f *Facts) {
	pkgVars := map[string]bool{}
	for _, file := range ex.files {
		for _, d := range file.Decls {
			if gd, ok := d.(*ast.GenDecl); ok && gd.Tok == token.VAR {
				for _, s := range gd.Specs {
					for _, n := range s.(*ast.ValueSpec).Names {
						pkgVars[n.Name] = true
					}
				}
			}
		}
	}
	writers := map[string]map[string]bool{}
	for name, d := range ex.funcs {
		if d.Body == nil {
			continue
		}
		note := func(e ast.Expr) {
			root := e
			for {
				switch t := root.(type) {
				case *ast.IndexExpr:
					root = t.X
					continue
				case *ast.SelectorExpr:
					root = t.X
					continue
				case *ast.StarExpr:
					root = t.X
					continue
				}
				break
			}
			if id, ok := root.(*ast.Ident); ok && pkgVars[id.Name] && ex.isPkgVarRef(id) {
				if writers[id.Name] == nil {
					writers[id.Name] = map[string]bool{}
				}
				writers[id.Name][name] = true
			}
		}
		ast.Inspect(d.Body, func(n ast.Node) bool {
			switch t := n.(type) {
			case *ast.AssignStmt:
				for _, l := range t.Lhs {
					note(l)
				}
			case *ast.IncDecStmt:
				note(t.X)
			case *ast.CallExpr:
				if id, ok := t.Fun.(*ast.Ident); ok && (id.Name == "delete" || id.Name == "clear") && len(t.Args) > 0 {
					note(t.Args[0])
				}
			}
			return true
		})
	}
	// every function that mentions a package-level variable at all (a shared hasher / buffer that is
	// only *used* through method calls is shared mutable state as well)
	users := map[string]map[string]bool{}
	for name, d := range ex.funcs {
		if d.Body == nil {
			continue
		}
		ast.Inspect(d.Body, func(n ast.Node) bool {
			if se, ok := n.(*ast.SelectorExpr); ok {
				// x.f: only x can be a variable reference
				ast.Inspect(se.X, func(m ast.Node) bool {
					if id, ok := m.(*ast.Ident); ok && pkgVars[id.Name] && ex.isPkgVarRef(id) {
						if users[id.Name] == nil {
							users[id.Name] = map[string]bool{}
						}
						users[id.Name][name] = true
					}
					return true
				})
				return false
			}
			if kv, ok := n.(*ast.KeyValueExpr); ok {
				// struct literal field names are not variable references
				ast.Inspect(kv.Value, func(m ast.Node) bool {
					if id, ok := m.(*ast.Ident); ok && pkgVars[id.Name] && ex.isPkgVarRef(id) {
						if users[id.Name] == nil {
							users[id.Name] = map[string]bool{}
						}
						users[id.Name][name] = true
					}
					return true
				})
				return false
			}
			if id, ok := n.(*ast.Ident); ok && pkgVars[id.Name] && ex.isPkgVarRef(id) {
				if users[id.Name] == nil {
					users[id.Name] = map[string]bool{}
				}
				users[id.Name][name] = true
			}
			return true
		})
	}
	f.PackageVarUsers = map[string][]string{}
	for v, us := range users {
		for u := range us {
			f.PackageVarUsers[v] = append(f.PackageVarUsers[v], u)
		}
		sort.Strings(f.PackageVarUsers[v])
	}
	f.PackageVarWriters = map[string][]string{}
	for v, ws := range writers {
		for w := range ws {
			f.PackageVarWriters[v] = append(f.PackageVarWriters[v], w)
		}
		sort.Strings(f.PackageVarWriters[v])
	}
}

// statement-level source text (go/printer), whitespace-normalised
func stmtText(n ast.Node) string {
	var sb strings.Builder
	if err := printer.Fprint(&sb, token.NewFileSet(), n); err != nil {
		return "?"
	}
	return strings.Join(strings.Fields(sb.String()), " ")
}

// decision lists: the top-level statements of the `sort.go` comparator, and the statements of `exec()` that compute
// the LIMIT / OFFSET window, as normalised source text in order
func (ex *extractor) decisions(f *Facts) {
	if f.Decisions == nil {
		f.Decisions = map[string][]string{}
	}
	if fd := ex.funcs["Compare"]; fd != nil && fd.Body != nil {
		for _, st := range fd.Body.List {
			f.Decisions["sortCompare"] = append(f.Decisions["sortCompare"], stmtText(st))
		}
	}
	// GETVAR / SETVAR: the statements of the two functions (C20's register machine is written after them)
	for _, fn := range []string{"GetVarFunc", "SetVarFunc"} {
		if fd := ex.funcs[fn]; fd != nil && fd.Body != nil {
			for _, st := range fd.Body.List {
				f.Decisions["vars"] = append(f.Decisions["vars"], fn+": "+stmtText(st))
			}
		}
	}
	// strategy selection of a join: which of the three loops runs, on which sides, sequentially or in parallel
	for _, fn := range []string{"Join.Exec", "Join.StraightJoin", "Join.Join", "Join.HashJoin"} {
		if fd := ex.funcs[fn]; fd != nil && fd.Body != nil {
			for _, st := range fd.Body.List {
				f.Decisions["join"] = append(f.Decisions["join"], fn+": "+stmtText(st))
			}
		}
	}
	// the stage order of exec(): the engine-level calls (Exec*, the slot resolution, the window slice) in source order
	if fd := ex.funcs["Query.exec"]; fd != nil && fd.Body != nil {
		ast.Inspect(fd.Body, func(n ast.Node) bool {
			switch t := n.(type) {
			case *ast.FuncLit:
				return false
			case *ast.CallExpr:
				name := exprText(t.Fun)
				if strings.HasPrefix(name, "Exec") || name == "resolveAsyncSlots" || name == "copy.exec" || name == "query.adopt" {
					f.Decisions["stages"] = append(f.Decisions["stages"], name)
				}
			case *ast.SliceExpr:
				f.Decisions["stages"] = append(f.Decisions["stages"], "slice:"+stmtText(t))
			}
			return true
		})
	}
	// unwrapping of engine-internal values: the cases of ValueOf's type switch, and what SelectExpr does with the value of
	// a select item (omit / fuse / async slot / store) and with `*`, statement by statement
	if fd := ex.funcs["ValueOf"]; fd != nil && fd.Body != nil {
		ast.Inspect(fd.Body, func(n ast.Node) bool {
			ts, ok := n.(*ast.TypeSwitchStmt)
			if !ok {
				return true
			}
			for _, st := range ts.Body.List {
				if cc, ok := st.(*ast.CaseClause); ok {
					label := "default"
					if len(cc.List) > 0 {
						var ls []string
						for _, e := range cc.List {
							ls = append(ls, srcText(e))
						}
						label = strings.Join(ls, ", ")
					}
					var body []string
					for _, b := range cc.Body {
						body = append(body, stmtText(b))
					}
					f.Decisions["valueOf"] = append(f.Decisions["valueOf"], "case "+label+": "+strings.Join(body, " "))
				}
			}
			return false
		})
	}
	if fd := ex.funcs["SelectExpr"]; fd != nil && fd.Body != nil {
		ast.Inspect(fd.Body, func(n ast.Node) bool {
			ts, ok := n.(*ast.TypeSwitchStmt)
			if !ok {
				return true
			}
			for _, st := range ts.Body.List {
				cc, ok := st.(*ast.CaseClause)
				if !ok || len(cc.List) != 1 {
					continue
				}
				label := srcText(cc.List[0])
				var walk func(list []ast.Stmt)
				walk = func(list []ast.Stmt) {
					for _, b := range list {
						if blk, ok := b.(*ast.BlockStmt); ok {
							walk(blk.List)
							continue
						}
						f.Decisions["selectExpr"] = append(f.Decisions["selectExpr"], label+": "+stmtText(b))
					}
				}
				walk(cc.Body)
			}
			return false
		})
	}
	// the dialect rewrites of New: which text each rewrite reads, where its result goes, and what is parsed
	if fd := ex.funcs["New"]; fd != nil && fd.Body != nil {
		for _, st := range fd.Body.List {
			mentions := false
			ast.Inspect(st, func(n ast.Node) bool {
				if id, ok := n.(*ast.Ident); ok {
					switch id.Name {
					case "DoubleQuotesToBackTick", "FixIdiomaticArray", "Parse", "postgresEscapingDialect", "idomaticArrays":
						mentions = true
					}
				}
				return true
			})
			if mentions {
				f.Decisions["dialect"] = append(f.Decisions["dialect"], stmtText(st))
			}
		}
	}
	// query copies (join sides, inner arrays of a multi-dimensional FROM): which fields of Query a copy inherits
	// and how, as sorted `field = value` lines, and how the origin takes over what the copy deferred
	if fd := ex.funcs["CopyQuery"]; fd != nil && fd.Body != nil {
		ast.Inspect(fd.Body, func(n ast.Node) bool {
			cl, ok := n.(*ast.CompositeLit)
			if !ok || exprText(cl.Type) != "Query" {
				return true
			}
			var lines []string
			for _, el := range cl.Elts {
				if kv, ok := el.(*ast.KeyValueExpr); ok {
					lines = append(lines, exprText(kv.Key)+" = "+stmtText(kv.Value))
				} else {
					lines = append(lines, "positional: "+stmtText(el))
				}
			}
			sort.Strings(lines)
			f.Decisions["copyQuery"] = append(f.Decisions["copyQuery"], lines...)
			return false
		})
		for _, st := range fd.Body.List {
			if _, ok := st.(*ast.ReturnStmt); !ok {
				f.Decisions["copyQuery"] = append(f.Decisions["copyQuery"], "stmt: "+stmtText(st))
			}
		}
	}
	if fd := ex.funcs["Query.adopt"]; fd != nil && fd.Body != nil {
		for _, st := range fd.Body.List {
			f.Decisions["copyQuery"] = append(f.Decisions["copyQuery"], "adopt: "+stmtText(st))
		}
	}
	for _, file := range ex.files {
		ast.Inspect(file, func(n ast.Node) bool {
			ts, ok := n.(*ast.TypeSpec)
			if !ok || ts.Name.Name != "Query" {
				return true
			}
			if stt, ok := ts.Type.(*ast.StructType); ok {
				for _, fl := range stt.Fields.List {
					for _, nm := range fl.Names {
						f.Decisions["queryFields"] = append(f.Decisions["queryFields"], nm.Name)
					}
				}
				sort.Strings(f.Decisions["queryFields"])
			}
			return false
		})
	}
	if fd := ex.funcs["Query.exec"]; fd != nil && fd.Body != nil {
		for _, st := range fd.Body.List {
			txt := stmtText(st)
			mentions := false
			ast.Inspect(st, func(n ast.Node) bool {
				if id, ok := n.(*ast.Ident); ok {
					l := strings.ToLower(id.Name)
					if strings.Contains(l, "limit") || strings.Contains(l, "offset") {
						mentions = true
					}
				}
				return true
			})
			if mentions {
				f.Decisions["window"] = append(f.Decisions["window"], txt)
			}
		}
	}
}

// the operator decision tables: for every `case sqlparser.XOp:` of the `switch expr.Operator` in ComparisonExpr,
// BinaryExpr and UnaryExpr the text of what the case computes (its first value-defining assignment, else its first
// returned expression)
func (ex *extractor) opTables(f *Facts) {
	f.OpTables = map[string][][2]string{}
	for _, fn := range []string{"ComparisonExpr", "BinaryExpr", "UnaryExpr"} {
		fd := ex.funcs[fn]
		if fd == nil || fd.Body == nil {
			continue
		}
		ast.Inspect(fd.Body, func(n ast.Node) bool {
			sw, ok := n.(*ast.SwitchStmt)
			if !ok || sw.Tag == nil || exprText(sw.Tag) != "expr.Operator" {
				return true
			}
			for _, st := range sw.Body.List {
				cc, ok := st.(*ast.CaseClause)
				if !ok || len(cc.List) != 1 {
					continue
				}
				label := exprText(cc.List[0])
				what := ""
				for _, b := range cc.Body {
					ast.Inspect(b, func(m ast.Node) bool {
						if what != "" {
							return false
						}
						switch t := m.(type) {
						case *ast.AssignStmt:
							if len(t.Lhs) == 1 && len(t.Rhs) == 1 {
								if id, ok := t.Lhs[0].(*ast.Ident); ok && id.Name == "rs" && t.Tok == token.DEFINE {
									what = srcText(t.Rhs[0])
								}
							}
						case *ast.ReturnStmt:
							if len(t.Results) > 0 {
								what = srcText(t.Results[0])
							}
						case *ast.IfStmt, *ast.ForStmt, *ast.RangeStmt:
							// the first statement that decides is what is recorded; nested control flow is summarised
							what = "<" + fmt.Sprintf("%T", t)[5:] + ">"
						}
						return what == ""
					})
					if what != "" {
						break
					}
				}
				f.OpTables[fn] = append(f.OpTables[fn], [2]string{label, what})
			}
			return false
		})
	}
}

// GetVarFunc / SetVarFunc: lock discipline on options.vars
func (ex *extractor) varsAccess(f *Facts) {
	f.VarsAccess = map[string][][]Event{}
	for _, fn := range []string{"GetVarFunc", "SetVarFunc"} {
		fd := ex.funcs[fn]
		if fd == nil {
			continue
		}
		cfg := &lockCfg{mutexes: map[string]string{"query.options.varsMut": "varsMut"}, vars: map[string]bool{}}
		base := cfg.events(ex)
		var ev evFn
		ev = func(n ast.Node) []Event {
			// accesses to query.options.vars
			switch t := n.(type) {
			case *ast.AssignStmt:
				var out []Event
				for _, r := range t.Rhs {
					out = append(out, ev(r)...)
				}
				for _, l := range t.Lhs {
					if ix, ok := l.(*ast.IndexExpr); ok && exprText(ix.X) == "query.options.vars" {
						out = append(out, Event{"write", "vars"})
					} else {
						out = append(out, ev(l)...)
					}
				}
				return out
			case *ast.SelectorExpr:
				if exprText(t) == "query.options.vars" {
					return []Event{{"read", "vars"}}
				}
			case *ast.IndexExpr:
				if exprText(t.X) == "query.options.vars" {
					return append(ev(t.Index), Event{"read", "vars"})
				}
			case *ast.CallExpr, *ast.ExprStmt, *ast.Ident, *ast.GoStmt, *ast.FuncLit, *ast.IncDecStmt, *ast.DeclStmt:
				if c, ok := n.(*ast.CallExpr); ok {
					if sel, ok := c.Fun.(*ast.SelectorExpr); ok {
						if _, ok := cfg.mutexes[exprText(sel.X)]; ok {
							return base(n)
						}
					}
					var out []Event
					for _, a := range c.Args {
						out = append(out, ev(a)...)
					}
					return out
				}
				if es, ok := n.(*ast.ExprStmt); ok {
					return ev(es.X)
				}
				return nil
			}
			var out []Event
			ast.Inspect(n, func(m ast.Node) bool {
				if m == nil || m == n {
					return true
				}
				out = append(out, ev(m)...)
				return false
			})
			return out
		}
		f.VarsAccess[fn] = ex.allPaths(fd.Body, ev)
	}
}

// FunExpr async / spinasync / spin clauses and execAndPostProcess: the order of the wait-group events
func (ex *extractor) asyncEvents(f *Facts) {
	f.AsyncEvents = map[string][]string{}
	f.AsyncUnwind = map[string][]string{}
	fd := ex.funcs["FunExpr"]
	if fd == nil {
		return
	}
	var tail []string
	if ep := ex.funcs["Query.execAndPostProcess"]; ep != nil {
		ast.Inspect(ep.Body, func(n ast.Node) bool {
			if c, ok := n.(*ast.CallExpr); ok {
				txt := exprText(c.Fun)
				if strings.HasSuffix(txt, ".wg.Wait") {
					tail = append(tail, "wgWait")
				}
				if txt == "postProcessor" {
					tail = append(tail, "post")
				}
			}
			return true
		})
	}
	ast.Inspect(fd.Body, func(n ast.Node) bool {
		cc, ok := n.(*ast.CaseClause)
		if !ok || len(cc.List) != 1 {
			return true
		}
		lit, ok := cc.List[0].(*ast.BasicLit)
		if !ok {
			return true
		}
		name, _ := strconv.Unquote(lit.Value)
		if name != "async" && name != "spinasync" && name != "spin" {
			return true
		}
		var evs []string
		for _, s := range cc.Body {
			ex.asyncStmt(s, &evs)
		}
		f.AsyncEvents[name] = append(evs, tail...)
		// the goroutine's deferred calls in the order they RUN (last deferred first) on a panic of `function`
		ast.Inspect(cc, func(n ast.Node) bool {
			g, ok := n.(*ast.GoStmt)
			if !ok {
				return true
			}
			if lit, ok := g.Call.Fun.(*ast.FuncLit); ok {
				var run []string
				for _, st := range lit.Body.List {
					d, ok := st.(*ast.DeferStmt)
					if !ok {
						continue
					}
					kind := "other"
					if strings.HasSuffix(exprText(d.Call.Fun), ".wg.Done") {
						kind = "wgDone"
					} else if dl, ok := d.Call.Fun.(*ast.FuncLit); ok {
						ast.Inspect(dl, func(m ast.Node) bool {
							if c, ok := m.(*ast.CallExpr); ok && exprText(c.Fun) == "recover" {
								kind = "recover"
							}
							return true
						})
					}
					run = append([]string{kind}, run...)
				}
				f.AsyncUnwind[name] = run
			}
			return false
		})
		return false
	})
}

func (ex *extractor) asyncStmt(s ast.Node, evs *[]string) {
	ast.Inspect(s, func(n ast.Node) bool {
		switch t := n.(type) {
		case *ast.GoStmt:
			*evs = append(*evs, "go")
			if lit, ok := t.Call.Fun.(*ast.FuncLit); ok {
				var deferred []string
				for _, st := range lit.Body.List {
					if d, ok := st.(*ast.DeferStmt); ok {
						if strings.HasSuffix(exprText(d.Call.Fun), ".wg.Done") {
							deferred = append([]string{"wgDone"}, deferred...)
						}
						continue
					}
					ast.Inspect(st, func(m ast.Node) bool {
						switch u := m.(type) {
						case *ast.AssignStmt:
							for _, r := range u.Rhs {
								if c, ok := r.(*ast.CallExpr); ok && exprText(c.Fun) == "function" {
									*evs = append(*evs, "invoke")
								}
							}
							for _, l := range u.Lhs {
								if id, ok := l.(*ast.Ident); ok && id.Name == "rs" {
									*evs = append(*evs, "store")
								}
							}
							return false
						case *ast.CallExpr:
							if strings.HasSuffix(exprText(u.Fun), ".wg.Done") {
								*evs = append(*evs, "wgDone")
							}
						}
						return true
					})
				}
				*evs = append(*evs, deferred...)
			}
			return false
		case *ast.CallExpr:
			if strings.HasSuffix(exprText(t.Fun), ".wg.Add") {
				*evs = append(*evs, "wgAdd")
			}
		case *ast.FuncLit:
			return false
		}
		return true
	})
}

// sub-queries forward their wait: `query.wg.Add(1); go func(){ sub.wg.Wait(); query.wg.Done() }()`
func (ex *extractor) forwarders(f *Facts) {
	for name, d := range ex.funcs {
		if d.Body == nil {
			continue
		}
		ast.Inspect(d.Body, func(n ast.Node) bool {
			g, ok := n.(*ast.GoStmt)
			if !ok {
				return true
			}
			lit, ok := g.Call.Fun.(*ast.FuncLit)
			if !ok || len(lit.Body.List) != 2 {
				return true
			}
			a, ok1 := lit.Body.List[0].(*ast.ExprStmt)
			b, ok2 := lit.Body.List[1].(*ast.ExprStmt)
			if ok1 && ok2 {
				ca, _ := a.X.(*ast.CallExpr)
				cb, _ := b.X.(*ast.CallExpr)
				if ca != nil && cb != nil && strings.HasSuffix(exprText(ca.Fun), ".wg.Wait") && strings.HasSuffix(exprText(cb.Fun), ".wg.Done") {
					f.NestedForwarders = append(f.NestedForwarders, name)
				}
			}
			return true
		})
	}
	sort.Strings(f.NestedForwarders)
}

// the registry: RegisterFunction / RegisterImmediateFunction calls in init(), with the Guard arity of the body
func (ex *extractor) registry(f *Facts) {
	for _, file := range ex.files {
		for _, d := range file.Decls {
			fd, ok := d.(*ast.FuncDecl)
			if !ok || fd.Name.Name != "init" || fd.Body == nil {
				continue
			}
			ast.Inspect(fd.Body, func(n ast.Node) bool {
				c, ok := n.(*ast.CallExpr)
				if !ok {
					return true
				}
				id, ok := c.Fun.(*ast.Ident)
				if !ok || (id.Name != "RegisterFunction" && id.Name != "RegisterImmediateFunction") || len(c.Args) != 2 {
					return true
				}
				lit, ok := c.Args[0].(*ast.BasicLit)
				if !ok {
					return true
				}
				name, _ := strconv.Unquote(lit.Value)
				imm := "false"
				if id.Name == "RegisterImmediateFunction" {
					imm = "true"
				}
				ar := ""
				if fn, ok := c.Args[1].(*ast.Ident); ok {
					if body := ex.funcs[fn.Name]; body != nil && body.Body != nil && len(body.Body.List) > 0 {
						// first statement: err := Guard(n, args)
						if as, ok := body.Body.List[0].(*ast.AssignStmt); ok && len(as.Rhs) == 1 {
							if gc, ok := as.Rhs[0].(*ast.CallExpr); ok && exprText(gc.Fun) == "Guard" && len(gc.Args) == 2 {
								if bl, ok := gc.Args[0].(*ast.BasicLit); ok {
									// and the error must be returned
									if len(body.Body.List) > 1 {
										if ifs, ok := body.Body.List[1].(*ast.IfStmt); ok && returnsErr(ifs) {
											ar = bl.Value
										}
									}
								}
							}
						}
					}
				}
				f.Registry = append(f.Registry, [3]string{strings.ToLower(name), imm, ar})
				return true
			})
		}
	}
	sort.Slice(f.Registry, func(i, j int) bool { return f.Registry[i][0] < f.Registry[j][0] })
}

func returnsErr(ifs *ast.IfStmt) bool {
	be, ok := ifs.Cond.(*ast.BinaryExpr)
	if !ok || be.Op != token.NEQ || exprText(be.X) != "err" || exprText(be.Y) != "nil" {
		return false
	}
	for _, s := range ifs.Body.List {
		if r, ok := s.(*ast.ReturnStmt); ok && len(r.Results) > 0 && exprText(r.Results[len(r.Results)-1]) == "err" {
			return true
		}
	}
	return false
}

// ---------------------------------------------------------------- write sites (C11)

var engineStructs = map[string]bool{"Query": true, "Join": true, "ExpressionReaderOptions": true, "Options": true,
	"HashedTable": true, "sqlLexer": true, "IndexSelector": true, "PipeSelector": true}

// an assignment / delete / sort / copy whose target is not rooted in a value the function allocated
func (ex *extractor) writeSites(f *Facts) {
	for name, d := range ex.funcs {
		if d.Body == nil {
			continue
		}
		fresh := map[*ast.Object]bool{}
		isFreshExpr := func(e ast.Expr) bool {
			switch t := e.(type) {
			case *ast.CompositeLit:
				return true
			case *ast.CallExpr:
				if exprText(t.Fun) == "append" {
					// append may write into, and returns a slice sharing, its first argument's array
					return len(t.Args) > 0 && appendBaseFresh(t.Args[0], fresh)
				}
				switch exprText(t.Fun) {
				case "make", "new", "maps.Clone", "WithBackwardNavigation", "NewHashedTable", "CopyQuery",
					"bytes.NewBufferString", "strings.Split", "strings.SplitN", "ProcessAlias":
					return true
				}
				if id, ok := t.Fun.(*ast.Ident); ok && (id.Name == "Map" || id.Name == "Fuse") {
					return false
				}
			case *ast.UnaryExpr:
				if t.Op == token.AND {
					if _, ok := t.X.(*ast.CompositeLit); ok {
						return true
					}
				}
			}
			return false
		}
		// pass 1: locals initialised with a fresh value (incl. `var x T` declarations and range-less := );
		// repeated, because `y := append(x, …)` is fresh only once `x` is known to be
		for round := 0; round < 3; round++ {
			ast.Inspect(d.Body, func(n ast.Node) bool {
				switch t := n.(type) {
				case *ast.AssignStmt:
					if len(t.Lhs) == len(t.Rhs) {
						for i, l := range t.Lhs {
							if id, ok := l.(*ast.Ident); ok && id.Obj != nil && isFreshExpr(t.Rhs[i]) {
								if t.Tok == token.DEFINE {
									fresh[id.Obj] = true
								}
							}
						}
					}
				case *ast.ValueSpec:
					for i, nme := range t.Names {
						if nme.Obj != nil && (len(t.Values) == 0 || (i < len(t.Values) && isFreshExpr(t.Values[i]))) {
							fresh[nme.Obj] = true
						}
					}
				}
				return true
			})
		}
		// a local that is ever re-assigned a non-fresh value is not fresh
		ast.Inspect(d.Body, func(n ast.Node) bool {
			if t, ok := n.(*ast.AssignStmt); ok && t.Tok == token.ASSIGN && len(t.Lhs) == len(t.Rhs) {
				for i, l := range t.Lhs {
					if id, ok := l.(*ast.Ident); ok && id.Obj != nil && fresh[id.Obj] && !isFreshExpr(t.Rhs[i]) {
						if !rootedInFresh(t.Rhs[i], fresh) {
							delete(fresh, id.Obj)
						}
					}
				}
			}
			return true
		})
		// parameters / receivers that point to one of the engine's own structs: assigning to their
		// fields writes engine state, never the caller's document
		engineParams := map[string]bool{}
		addParams := func(fl *ast.FieldList) {
			if fl == nil {
				return
			}
			for _, fld := range fl.List {
				if st, ok := fld.Type.(*ast.StarExpr); ok {
					if id, ok := st.X.(*ast.Ident); ok && engineStructs[id.Name] {
						for _, n := range fld.Names {
							engineParams[n.Name] = true
						}
					}
				}
			}
		}
		addParams(d.Recv)
		addParams(d.Type.Params)
		ast.Inspect(d.Body, func(n ast.Node) bool {
			if lit, ok := n.(*ast.FuncLit); ok {
				addParams(lit.Type.Params)
			}
			return true
		})
		report := func(kind string, target ast.Expr) {
			if rootedInFresh(target, fresh) {
				return
			}
			_, isSel := target.(*ast.SelectorExpr)
			if kind == "field" || (kind == "append" && isSel) {
				root := target
				for {
					if se, ok := root.(*ast.SelectorExpr); ok {
						root = se.X
						continue
					}
					break
				}
				if id, ok := root.(*ast.Ident); ok && engineParams[id.Name] {
					return
				}
			}
			f.WriteSites = append(f.WriteSites, fmt.Sprintf("%s:%s:%s", name, kind, exprText(stripIndex(target))))
		}
		ast.Inspect(d.Body, func(n ast.Node) bool {
			switch t := n.(type) {
			case *ast.AssignStmt:
				for _, l := range t.Lhs {
					switch l.(type) {
					case *ast.IndexExpr:
						report("index", l)
					case *ast.StarExpr:
						report("deref", l)
					case *ast.SelectorExpr:
						// assignment to a field: of a local struct it allocated, or of a parameter (query.from = …)
						report("field", l)
					}
				}
			case *ast.CallExpr:
				switch exprText(t.Fun) {
				case "delete", "clear":
					if len(t.Args) > 0 {
						report("delete", t.Args[0])
					}
				case "append":
					// writes into the spare capacity of its first argument: after `s := doc[a:b]` that is the
					// caller's own array
					if len(t.Args) > 0 && !appendBaseFresh(t.Args[0], fresh) {
						report("append", t.Args[0])
					}
				case "copy", "maps.Copy":
					if len(t.Args) > 0 {
						report("copy", t.Args[0])
					}
				case "sort.Slice", "sort.SliceStable", "sort.Sort", "sort.Strings":
					if len(t.Args) > 0 {
						report("sort", t.Args[0])
					}
				}
			}
			return true
		})
	}
	f.WriteSites = uniq(f.WriteSites)
}

// the first argument of append: nil, a literal, or something rooted in a value this function allocated
func appendBaseFresh(e ast.Expr, fresh map[*ast.Object]bool) bool {
	if id, ok := e.(*ast.Ident); ok && id.Name == "nil" {
		return true
	}
	return rootedInFresh(e, fresh)
}

func stripIndex(e ast.Expr) ast.Expr {
	for {
		switch t := e.(type) {
		case *ast.IndexExpr:
			e = t.X
			continue
		case *ast.ParenExpr:
			e = t.X
			continue
		}
		return e
	}
}

func rootedInFresh(e ast.Expr, fresh map[*ast.Object]bool) bool {
	for {
		switch t := e.(type) {
		case *ast.IndexExpr:
			e = t.X
			continue
		case *ast.SelectorExpr:
			e = t.X
			continue
		case *ast.StarExpr:
			e = t.X
			continue
		case *ast.ParenExpr:
			e = t.X
			continue
		case *ast.SliceExpr:
			e = t.X
			continue
		case *ast.Ident:
			return t.Obj != nil && fresh[t.Obj]
		case *ast.CompositeLit:
			return true
		case *ast.CallExpr:
			// only allocating calls are fresh roots; a conversion `Map(x)` or any other call may alias its argument
			if exprText(t.Fun) == "append" {
				return len(t.Args) > 0 && appendBaseFresh(t.Args[0], fresh)
			}
			switch exprText(t.Fun) {
			case "make", "new", "maps.Clone", "WithBackwardNavigation", "NewHashedTable", "CopyQuery",
				"bytes.NewBufferString", "strings.Split", "strings.SplitN", "ProcessAlias":
				return true
			}
			return false
		}
		return false
	}
}

func uniq(xs []string) []string {
	sort.Strings(xs)
	var out []string
	for i, x := range xs {
		if i == 0 || xs[i-1] != x {
			out = append(out, x)
		}
	}
	return out
}

// ---------------------------------------------------------------- panic sites, goroutines, recover (C10)

func hasRecover(body *ast.BlockStmt) bool {
	found := false
	for _, s := range body.List {
		d, ok := s.(*ast.DeferStmt)
		if !ok {
			continue
		}
		ast.Inspect(d, func(n ast.Node) bool {
			if c, ok := n.(*ast.CallExpr); ok && exprText(c.Fun) == "recover" {
				found = true
			}
			return true
		})
	}
	return found
}

func (ex *extractor) panicSites(f *Facts) {
	for name, d := range ex.funcs {
		if d.Body == nil {
			continue
		}
		if hasRecover(d.Body) {
			f.RecoverFuncs = append(f.RecoverFuncs, name)
		}
		var visit func(n ast.Node, inGo bool, guarded bool)
		visit = func(n ast.Node, inGo bool, guarded bool) {
			ast.Inspect(n, func(m ast.Node) bool {
				switch t := m.(type) {
				case *ast.GoStmt:
					if lit, ok := t.Call.Fun.(*ast.FuncLit); ok {
						g := hasRecover(lit.Body)
						trivial := isForwarder(lit)
						kind := "go-unrecovered"
						if g {
							kind = "go-recovered"
						} else if trivial {
							kind = "go-forwarder"
						}
						f.GoSites = append(f.GoSites, name+":"+kind)
						visit(lit.Body, true, g)
						return false
					}
					f.GoSites = append(f.GoSites, name+":go-call")
				case *ast.CallExpr:
					if id, ok := t.Fun.(*ast.Ident); ok && id.Name == "panic" {
						where := "panic"
						if inGo {
							if guarded {
								where = "panic-in-recovered-goroutine"
							} else {
								where = "panic-in-goroutine"
							}
						}
						f.PanicSites = append(f.PanicSites, name+":"+where)
					}
				case *ast.TypeAssertExpr:
					// single-value assertions can panic; the comma-ok form and type switches cannot
					if t.Type != nil && !ex.isCommaOk(d.Body, t) {
						where := "assert"
						if inGo && !guarded {
							where = "assert-in-goroutine"
						}
						f.PanicSites = append(f.PanicSites, name+":"+where)
					}
				}
				return true
			})
		}
		visit(d.Body, false, false)
	}
	f.PanicSites = countDup(f.PanicSites)
	f.GoSites = countDup(f.GoSites)
	sort.Strings(f.RecoverFuncs)
}

func countDup(xs []string) []string {
	m := map[string]int{}
	for _, x := range xs {
		m[x]++
	}
	var out []string
	for k, v := range m {
		out = append(out, fmt.Sprintf("%s#%d", k, v))
	}
	sort.Strings(out)
	return out
}

func isForwarder(lit *ast.FuncLit) bool {
	if len(lit.Body.List) != 2 {
		return false
	}
	for _, s := range lit.Body.List {
		es, ok := s.(*ast.ExprStmt)
		if !ok {
			return false
		}
		c, ok := es.X.(*ast.CallExpr)
		if !ok {
			return false
		}
		t := exprText(c.Fun)
		if !strings.HasSuffix(t, ".wg.Wait") && !strings.HasSuffix(t, ".wg.Done") {
			return false
		}
	}
	return true
}

func (ex *extractor) isCommaOk(body *ast.BlockStmt, ta *ast.TypeAssertExpr) bool {
	ok := false
	ast.Inspect(body, func(n ast.Node) bool {
		switch t := n.(type) {
		case *ast.AssignStmt:
			if len(t.Lhs) == 2 && len(t.Rhs) == 1 && stripParen(t.Rhs[0]) == ta {
				ok = true
			}
		case *ast.ValueSpec:
			if len(t.Names) == 2 && len(t.Values) == 1 && stripParen(t.Values[0]) == ta {
				ok = true
			}
		}
		return true
	})
	return ok
}

func stripParen(e ast.Expr) ast.Expr {
	for {
		if p, ok := e.(*ast.ParenExpr); ok {
			e = p.X
			continue
		}
		return e
	}
}

// ---------------------------------------------------------------- swallowed errors (C19)

// `if err != nil { return <…>, nil }` / `{ return nil }` in a function whose last result is `error`,
// `_ = f()` / `x, _ := f()` discarding an error result cannot be seen without types: only the
// syntactic shapes below are reported.
func (ex *extractor) swallowSites(f *Facts) {
	for name, d := range ex.funcs {
		if d.Body == nil || d.Type.Results == nil {
			continue
		}
		res := d.Type.Results.List
		lastIsErr := exprText(res[len(res)-1].Type) == "error"
		ast.Inspect(d.Body, func(n ast.Node) bool {
			if _, isLit := n.(*ast.FuncLit); isLit {
				return false
			}
			ifs, ok := n.(*ast.IfStmt)
			if !ok {
				return true
			}
			be, ok := ifs.Cond.(*ast.BinaryExpr)
			if !ok || be.Op != token.NEQ || exprText(be.Y) != "nil" {
				return true
			}
			v := exprText(be.X)
			if v != "err" && v != "e" && !strings.HasSuffix(strings.ToLower(v), "err") {
				return true
			}
			for _, s := range ifs.Body.List {
				r, ok := s.(*ast.ReturnStmt)
				if !ok {
					continue
				}
				if lastIsErr && len(r.Results) > 0 && exprText(r.Results[len(r.Results)-1]) == "nil" {
					f.SwallowSites = append(f.SwallowSites, name+":return-nil-error-after-err-check")
				}
			}
			// err checked but the branch neither returns nor records it
			hasReturn := false
			mentions := false
			ast.Inspect(ifs.Body, func(m ast.Node) bool {
				switch u := m.(type) {
				case *ast.ReturnStmt:
					hasReturn = true
				case *ast.Ident:
					if u.Name == v {
						mentions = true
					}
				case *ast.CallExpr:
					if id, ok := u.Fun.(*ast.Ident); ok && id.Name == "panic" {
						hasReturn = true
					}
				}
				return true
			})
			if !hasReturn && !mentions {
				f.SwallowSites = append(f.SwallowSites, name+":err-checked-and-dropped")
			}
			return true
		})
		// an error overwritten before it is tested:  x, err := a(); y, err := b()
		var prevErrAssign ast.Node
		for _, s := range d.Body.List {
			if as, ok := s.(*ast.AssignStmt); ok {
				assignsErr := false
				for _, l := range as.Lhs {
					if exprText(l) == "err" {
						assignsErr = true
					}
				}
				if assignsErr {
					if prevErrAssign != nil {
						f.SwallowSites = append(f.SwallowSites, name+":err-overwritten-before-test")
					}
					prevErrAssign = as
					continue
				}
			}
			uses := false
			ast.Inspect(s, func(m ast.Node) bool {
				if id, ok := m.(*ast.Ident); ok && id.Name == "err" {
					uses = true
				}
				return true
			})
			if uses {
				prevErrAssign = nil
			}
		}
	}
	f.SwallowSites = countDup(f.SwallowSites)
}

// ---------------------------------------------------------------- output

func leanStrList(xs []string) string {
	var q []string
	for _, x := range xs {
		q = append(q, strconv.Quote(x))
	}
	return "[" + strings.Join(q, ", ") + "]"
}

// funcTextLines renders one function as text lines: its signature, then every top-level statement of its body in pieces
// of at most 160 characters (normalised white space)
func funcTextLines(n string, fd *ast.FuncDecl) []string {
	if fd == nil || fd.Body == nil {
		return []string{n + ": MISSING"}
	}
	out := []string{n + ": " + stmtText(fd.Type)}
	for i, st := range fd.Body.List {
		txt := stmtText(st)
		for j := 0; len(txt) > 0; j++ {
			cut := len(txt)
			if cut > 160 {
				cut = 160
				for cut > 0 && !utf8.RuneStart(txt[cut]) {
					cut--
				}
			}
			out = append(out, fmt.Sprintf("%s#%d.%d: %s", n, i, j, txt[:cut]))
			txt = txt[cut:]
		}
	}
	return out
}

// the functions of package genql that each property's model mirrors and that no other regenerated fact covers line by line:
// their whole text is a fact (Obligations/Pin*.lean hold the text the model was written after)
var pinned = map[string][]string{
	"C01": {"BetweenExpr", "IsExpr", "AndExpr", "OrExpr", "NotExpr", "RegexComparison", "ExecWhere"},
	"C02": {"LiteralExpr", "CaseExpr", "ValueTupleExpr", "FuncArgReader", "BuildLiteral", "BuildColumnName"},
	"C03": {"ExecGroupBy", "ExecHaving", "AggrFunExpr", "AggrFuncArgReader", "Query.matched", "ExecSelect", "IsSelectAllAggregate",
		"SumFunc", "AvgFunc", "MinFunc", "MaxFunc", "CountFunc"},
	"C04": {"ToHash", "ToCatalog", "NewJoin", "Join.HashJoinFunc", "Join.JoinFunc", "Join.JoinMatchFunc", "Join.HashJoinMatchFunc",
		"Join.on", "Copy", "hashJoinAnalyze", "extractJoinColumns", "extractColumnsFromExpr", "BuildJoin", "ExecJoin"},
	"C05": {"Sort", "ExecOrderBy", "BuildOrder", "BuildLimit"},
	"C06": {"BuildUnion", "ExecDistinct"},
	"C07": {"BuildCte", "SubqueryExpr", "ExistExpr", "WithBackwardNavigation", "ProcessAlias", "BuildFromAliasedTable"},
	"C09": {"ReadIndex", "ReadRange", "ParseArray", "ParsePipe", "ParseSelector", "SelectDimension", "SelectMany", "Unwind",
		"SelectObject", "ExecReader", "ReaderExecutor", "Reader", "Mix", "MixArray", "MixObject", "Distinct", "RegisterTopLevelFunction"},
	"C17": {"DoubleQuotesToBackTick", "FindArrayIndex", "FixIdiomaticArray"},
	"C18": {"ConcatFunc", "FirstFunc", "LastFunc", "ElementAtFunc", "ChangeTypeFunc", "UnwindFunc", "IfFunc", "DateRangeFunc",
		"ConstantFunc", "ToLowerFunc", "ToUpperFunc", "HashFunc", "EncodeFunc", "DecodeFunc", "ArrayFunc", "Guard", "ToFloat64", "ToInt"},
	"C19": {"RaiseWhenFunc", "RaiseFunc", "ToFloat64", "Sort"},
}

func (ex *extractor) pins(f *Facts) {
	for prop, fns := range pinned {
		for _, n := range fns {
			f.Decisions["pin"+prop] = append(f.Decisions["pin"+prop], funcTextLines(n, ex.funcs[n])...)
		}
	}
}

func main() {
	if len(os.Args) != 4 {
		fmt.Fprintln(os.Stderr, "usage: gofacts <repo> <Facts.lean> <facts.json>")
		os.Exit(2)
	}
	ex := load(os.Args[1])
	f := &Facts{}
	ex.execReader(f)
	ex.parallelWorkers(f)
	ex.packageVars(f)
	// the same table for every sub-package that holds library code
	f.SubPackageVars = map[string][]string{}
	if entries, err := os.ReadDir(os.Args[1]); err == nil {
		for _, e := range entries {
			if !e.IsDir() || strings.HasPrefix(e.Name(), ".") || e.Name() == "vendor" || e.Name() == "testdata" {
				continue
			}
			sub := load(filepath.Join(os.Args[1], e.Name()))
			if len(sub.files) == 0 {
				continue
			}
			sf := &Facts{}
			sub.packageVars(sf)
			// the whole text of the sub-package's functions, statement by statement (long statements in pieces of 160
			// characters): `compare` and `sanitizer` are modelled function by function (Model/Compare, Model/Sanitize)
			{
				var names []string
				for n := range sub.funcs {
					names = append(names, n)
				}
				sort.Strings(names)
				key := "pkg" + strings.ToUpper(e.Name()[:1]) + e.Name()[1:]
				if f.Decisions == nil {
					f.Decisions = map[string][]string{}
				}
				for _, n := range names {
					f.Decisions[key] = append(f.Decisions[key], funcTextLines(n, sub.funcs[n])...)
				}
			}
			// declared variables, whether or not a function mentions them yet
			for _, file := range sub.files {
				for _, d := range file.Decls {
					if gd, ok := d.(*ast.GenDecl); ok && gd.Tok == token.VAR {
						for _, sp := range gd.Specs {
							for _, n := range sp.(*ast.ValueSpec).Names {
								if n.Name == "_" {
									continue
								}
								f.SubPackageVars[e.Name()+"."+n.Name] = sf.PackageVarUsers[n.Name]
							}
						}
					}
				}
			}
		}
	}
	ex.varsAccess(f)
	ex.opTables(f)
	ex.decisions(f)
	ex.pins(f)
	ex.asyncEvents(f)
	ex.forwarders(f)
	ex.registry(f)
	ex.writeSites(f)
	ex.panicSites(f)
	ex.swallowSites(f)

	var sb strings.Builder
	sb.WriteString("/-\n  GENERATED by harness/cmd/gofacts from the Go sources of /repo — do not edit.\n  Regenerated on every check run; the obligations in Genql/Obligations/*.lean are about these terms.\n-/\n")
	sb.WriteString("import Genql.Model.Conc\nimport Genql.Model.Async\nnamespace Genql.Generated\nopen Genql.Conc Genql.Async\n\n")
	sb.WriteString("def execReaderPaths : List (List Instr) :=\n   " + leanInstrs(f.ExecReaderPaths) + "\n\n")
	sb.WriteString("def cacheAccessors : List String := " + leanStrList(f.CacheAccessors) + "\n\n")
	for _, fn := range []string{"Join.ParallelJoinFunc", "Join.ParallelHashJoinFunc"} {
		nm := "parallelJoinWorkerPaths"
		if strings.Contains(fn, "Hash") {
			nm = "parallelHashJoinWorkerPaths"
		}
		sb.WriteString("def " + nm + " : List (List Instr) :=\n   " + leanInstrs(f.ParallelWorkers[fn]) + "\n\n")
	}
	for _, fn := range []string{"GetVarFunc", "SetVarFunc"} {
		sb.WriteString("def " + strings.ToLower(fn[:1]) + fn[1:] + "Paths : List (List Instr) :=\n   " + leanInstrs(f.VarsAccess[fn]) + "\n\n")
	}
	var keys []string
	for k := range f.PackageVarWriters {
		keys = append(keys, k)
	}
	sort.Strings(keys)
	var pv []string
	for _, k := range keys {
		pv = append(pv, fmt.Sprintf("(%s, %s)", strconv.Quote(k), leanStrList(f.PackageVarWriters[k])))
	}
	sb.WriteString("def packageVarWriters : List (String × List String) :=\n  [" + strings.Join(pv, ",\n   ") + "]\n\n")
	var ukeys []string
	for k := range f.PackageVarUsers {
		ukeys = append(ukeys, k)
	}
	sort.Strings(ukeys)
	var pu []string
	for _, k := range ukeys {
		pu = append(pu, fmt.Sprintf("(%s, %s)", strconv.Quote(k), leanStrList(f.PackageVarUsers[k])))
	}
	{
		var ks []string
		for k := range f.SubPackageVars {
			ks = append(ks, k)
		}
		sort.Strings(ks)
		var items []string
		for _, k := range ks {
			items = append(items, "("+strconv.Quote(k)+", "+leanStrList(f.SubPackageVars[k])+")")
		}
		sb.WriteString("def subPackageVars : List (String × List String) :=\n  [" + strings.Join(items, ",\n   ") + "]\n\n")
	}
	sb.WriteString("def packageVarUsers : List (String × List String) :=\n  [" + strings.Join(pu, ",\n   ") + "]\n\n")
	for _, k := range []string{"async", "spinasync", "spin"} {
		var evs []string
		for _, e := range f.AsyncEvents[k] {
			evs = append(evs, "."+e)
		}
		sb.WriteString("def " + k + "Events : List Ev := [" + strings.Join(evs, ", ") + "]\n")
	}
	for _, k := range []string{"sortCompare", "window", "join", "stages", "vars", "copyQuery", "queryFields", "dialect", "valueOf", "selectExpr", "pkgCompare", "pkgSanitizer",
		"pinC01", "pinC02", "pinC03", "pinC04", "pinC05", "pinC06", "pinC07", "pinC09", "pinC17", "pinC18", "pinC19"} {
		sb.WriteString("def decisions" + strings.ToUpper(k[:1]) + k[1:] + " : List String :=\n  " + leanStrList(f.Decisions[k]) + "\n\n")
	}
	for _, fn := range []string{"ComparisonExpr", "BinaryExpr", "UnaryExpr"} {
		var items []string
		for _, r := range f.OpTables[fn] {
			items = append(items, "("+strconv.Quote(r[0])+", "+strconv.Quote(r[1])+")")
		}
		sb.WriteString("def opTable" + fn + " : List (String × String) :=\n  [" + strings.Join(items, ",\n   ") + "]\n\n")
	}
	for _, k := range []string{"async", "spinasync", "spin"} {
		sb.WriteString("def " + k + "Unwind : List String := " + leanStrList(f.AsyncUnwind[k]) + "\n")
	}
	sb.WriteString("\ndef nestedForwarders : List String := " + leanStrList(f.NestedForwarders) + "\n\n")
	var reg []string
	for _, r := range f.Registry {
		ar := "none"
		if r[2] != "" {
			ar = "some " + r[2]
		}
		reg = append(reg, fmt.Sprintf("(%s, %s, %s)", strconv.Quote(r[0]), r[1], ar))
	}
	sb.WriteString("def registry : List (String × Bool × Option Nat) :=\n  [" + strings.Join(reg, ",\n   ") + "]\n\n")
	sb.WriteString("def writeSites : List String :=\n  " + leanStrList(f.WriteSites) + "\n\n")
	{
		// the function each write site is in (the part of the site before its first ':'), as a parallel list
		var fns []string
		for _, w := range f.WriteSites {
			fns = append(fns, strings.SplitN(w, ":", 2)[0])
		}
		sb.WriteString("def writeSiteFuncs : List String :=\n  " + leanStrList(fns) + "\n\n")
	}
	sb.WriteString("def panicSites : List String :=\n  " + leanStrList(f.PanicSites) + "\n\n")
	sb.WriteString("def goSites : List String :=\n  " + leanStrList(f.GoSites) + "\n\n")
	sb.WriteString("def recoverFuncs : List String :=\n  " + leanStrList(f.RecoverFuncs) + "\n\n")
	sb.WriteString("def swallowSites : List String :=\n  " + leanStrList(f.SwallowSites) + "\n\n")
	sb.WriteString("end Genql.Generated\n")
	if err := os.WriteFile(os.Args[2], []byte(sb.String()), 0o644); err != nil {
		panic(err)
	}
	js, _ := json.MarshalIndent(f, "", " ")
	if err := os.WriteFile(os.Args[3], js, 0o644); err != nil {
		panic(err)
	}
}
