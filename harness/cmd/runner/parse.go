package main

import (
	"fmt"
	"github.com/vedadiyan/genql"
	"github.com/vedadiyan/sqlparser/v2"
)

// canonicalSQL renders the parsed statement back to text (the parser's own canonical form); two
// texts with the same rendering have the same AST shape and literals.
func canonicalSQL(st genql.Statement) string {
	return sqlparser.String(st)
}

// joinTypePredicates parses `SELECT * FROM a x <spelling> b y ON x.i = y.i` and reports what the parser's JoinType
// predicates answer for it — the four questions the engine asks (the model's `JoinType` structure)
func joinTypePredicates(spelling string) (map[string]any, error) {
	st, err := genql.Parse("SELECT * FROM a x " + spelling + " b y ON x.i = y.i")
	if err != nil {
		return nil, err
	}
	var found *sqlparser.JoinTableExpr
	_ = sqlparser.Walk(func(node sqlparser.SQLNode) (bool, error) {
		if j, ok := node.(*sqlparser.JoinTableExpr); ok && found == nil {
			found = j
		}
		return true, nil
	}, st)
	if found == nil {
		return nil, fmt.Errorf("no join in the parsed statement")
	}
	jt := found.Join
	return map[string]any{"inner": jt.IsInner(), "left": jt.IsLeftJoin(), "straight": jt.IsStraightJoin(), "parallel": jt.IsParallel()}, nil
}
