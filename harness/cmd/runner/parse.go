package main

import (
	"github.com/vedadiyan/genql"
	"github.com/vedadiyan/sqlparser/v2"
)

// canonicalSQL renders the parsed statement back to text (the parser's own canonical form); two
// texts with the same rendering have the same AST shape and literals.
func canonicalSQL(st genql.Statement) string {
	return sqlparser.String(st)
}
