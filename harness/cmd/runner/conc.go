package main

import (
	"encoding/json"
	"fmt"
	"sort"
	"strings"
	"sync"
	"sync/atomic"

	"github.com/vedadiyan/genql"
)

// concReq: a set of queries executed concurrently from many goroutines, each compared with the
// result it gives when run alone on a private copy of its document.
type concQuery struct {
	Doc     int    `json:"doc"` // index into Docs; queries with the same index SHARE the Go object
	SQL     string `json:"sql"`
	Wrapped bool   `json:"wrapped"`
	// the result of this query when it is the only thing a fresh process ever ran (op "alone"); when present it
	// replaces the in-process baseline, which shares the process-wide selector cache with everything run before it
	ExpectV *string `json:"expectV"`
	ExpectR string  `json:"expectR"`
}

type concReq struct {
	Docs       []json.RawMessage `json:"docs"`
	Queries    []concQuery       `json:"queries"`
	Selectors  []string          `json:"selectors"` // ExecReader calls on Docs[0]; `%d` is replaced per call to force cache misses
	Goroutines int               `json:"goroutines"`
	Repeat     int               `json:"repeat"`
}

func runOne(doc map[string]any, q concQuery) (string, string) {
	opts := []genql.QueryOption{}
	if q.Wrapped {
		opts = append(opts, genql.Wrapped())
	}
	qq, err := genql.New(doc, q.SQL, opts...)
	if err != nil {
		return "", "error"
	}
	rs, err := qq.Exec()
	if err != nil {
		return "", "error"
	}
	if rs == nil {
		rs = []any{}
	}
	// rows compared as a multiset: hash joins and parallel joins return rows in map / schedule order
	rows := make([]string, len(rs))
	for i, r := range rs {
		rows[i], _ = encode(r)
	}
	sort.Strings(rows)
	return strings.Join(rows, "\n"), "ok"
}

// opAlone: one query on one document, in a process that runs nothing else
func opAlone(raw json.RawMessage) resp {
	var a struct {
		Doc json.RawMessage `json:"doc"`
		Q   concQuery       `json:"q"`
	}
	if err := json.Unmarshal(raw, &a); err != nil {
		return resp{"bad": err.Error()}
	}
	v, err := decodeVal(a.Doc)
	if err != nil {
		return resp{"bad": err.Error()}
	}
	m, ok := v.(map[string]any)
	if !ok {
		return resp{"bad": "doc must be an object"}
	}
	val, rr := runOne(m, a.Q)
	return resp{"r": "ok", "v": val, "rr": rr}
}

func opConc(raw json.RawMessage) resp {
	out := resp{}
	var r concReq
	if err := json.Unmarshal(raw, &r); err != nil {
		out["bad"] = err.Error()
		return out
	}
	docs := make([]map[string]any, len(r.Docs))
	for i, d := range r.Docs {
		v, err := decodeVal(d)
		if err != nil {
			out["bad"] = err.Error()
			return out
		}
		m, ok := v.(map[string]any)
		if !ok {
			out["bad"] = "doc must be an object"
			return out
		}
		docs[i] = m
	}
	// sequential baseline on private copies
	type exp struct{ v, r string }
	expect := make([]exp, len(r.Queries))
	for i, q := range r.Queries {
		v, rr := runOne(deepCopy(docs[q.Doc]).(map[string]any), q)
		expect[i] = exp{v, rr}
		if q.ExpectV != nil {
			expect[i] = exp{*q.ExpectV, q.ExpectR}
			if v != *q.ExpectV || rr != q.ExpectR {
				out["r"] = "ok"
				out["mismatches"] = 1
				out["maxConcurrent"] = 0
				out["executions"] = i + 1
				out["first"] = map[string]any{"sql": q.SQL, "doc": q.Doc, "alone": *q.ExpectV, "aloneR": q.ExpectR,
					"afterEarlierQueriesInTheSameProcess": v, "afterR": rr}
				return out
			}
		}
	}
	selExpect := make([]string, len(r.Selectors))
	for i, s := range r.Selectors {
		v, err := genql.ExecReader(deepCopy(docs[0]), fmt.Sprintf(s, 0))
		if err != nil {
			selExpect[i] = "error"
		} else {
			selExpect[i], _ = encode(v)
		}
	}
	before := make([]string, len(docs))
	for i, d := range docs {
		before[i], _ = encode(d)
	}
	var mismatches atomic.Int64
	var firstMu sync.Mutex
	var first any
	var running, maxRunning atomic.Int64
	var wg sync.WaitGroup
	start := make(chan struct{})
	for g := 0; g < r.Goroutines; g++ {
		wg.Add(1)
		go func(g int) {
			defer wg.Done()
			defer func() {
				if p := recover(); p != nil {
					mismatches.Add(1)
					firstMu.Lock()
					if first == nil {
						first = map[string]any{"panic": fmt.Sprint(p)}
					}
					firstMu.Unlock()
				}
			}()
			<-start
			for rep := 0; rep < r.Repeat; rep++ {
				for k := range r.Queries {
					i := (k + g) % len(r.Queries)
					q := r.Queries[i]
					n := running.Add(1)
					for {
						m := maxRunning.Load()
						if n <= m || maxRunning.CompareAndSwap(m, n) {
							break
						}
					}
					v, rr := runOne(docs[q.Doc], q)
					running.Add(-1)
					if v != expect[i].v || rr != expect[i].r {
						mismatches.Add(1)
						firstMu.Lock()
						if first == nil {
							first = map[string]any{"sql": q.SQL, "alone": expect[i].v, "aloneR": expect[i].r, "concurrent": v, "concurrentR": rr}
						}
						firstMu.Unlock()
					}
				}
				for k, s := range r.Selectors {
					sel := fmt.Sprintf(s, g*1000000+rep*1000+k) // fresh text: a cache miss
					v, err := genql.ExecReader(docs[0], sel)
					got := "error"
					if err == nil {
						got, _ = encode(v)
					}
					if got != selExpect[k] {
						mismatches.Add(1)
						firstMu.Lock()
						if first == nil {
							first = map[string]any{"selector": sel, "alone": selExpect[k], "concurrent": got}
						}
						firstMu.Unlock()
					}
				}
			}
		}(g)
	}
	close(start)
	wg.Wait()
	for i, d := range docs {
		after, _ := encode(d)
		if after != before[i] {
			out["docChanged"] = true
		}
	}
	out["r"] = "ok"
	out["mismatches"] = mismatches.Load()
	out["maxConcurrent"] = maxRunning.Load()
	out["executions"] = r.Goroutines * r.Repeat * (len(r.Queries) + len(r.Selectors))
	if first != nil {
		out["first"] = first
	}
	return out
}
