// runner executes operations against the real genql library (built from /repo's working tree)
// over a JSON line protocol: one request per line on stdin, one response per line on stdout.
// It is the implementation side of the correspondence check; it contains no expectations.
package main

import (
	"bufio"
	"encoding/json"
	"fmt"
	"math"
	"os"
	"reflect"
	"sort"
	"strconv"
	"strings"
	"sync"
	"sync/atomic"
	"time"

	"github.com/vedadiyan/genql"
	"github.com/vedadiyan/genql/compare"
	sanitize "github.com/vedadiyan/genql/sanitizer"
)

type req struct {
	ID          json.RawMessage `json:"id"`
	Op          string          `json:"op"`
	Doc         json.RawMessage `json:"doc"`
	SQL         string          `json:"sql"`
	Wrapped     bool            `json:"wrapped"`
	Pg          bool            `json:"pg"`
	Arr         bool            `json:"arr"`
	Consts      json.RawMessage `json:"consts"`
	Vars        json.RawMessage `json:"vars"`
	FailAt      int64           `json:"failAt"`
	Latency     []int           `json:"latency"` // per-call latency in microseconds (cycled)
	Selector    string          `json:"selector"`
	A           json.RawMessage `json:"a"`
	B           json.RawMessage `json:"b"`
	Args        json.RawMessage `json:"args"`
	Text        string          `json:"text"`
	Pattern     string          `json:"pattern"`
	Name        string          `json:"name"`
	Repeat      int             `json:"repeat"`
	TimeoutM    int             `json:"timeoutMs"`
	NumKind     string          `json:"numKind"`     // store integral numbers of the document as this Go kind
	Tables      string          `json:"tables"`      // "maps": top-level arrays of objects become []map[string]any (typed slices)
	ReExec      bool            `json:"reExec"`      // query op: call Exec a second time on the same *Query ("v2" / "r2")
	CompletedCb string          `json:"completedCb"` // query op: pass CompletedCallback: "count" counts the calls, "panic" panics in it
	TopName     string          `json:"topName"`     // reader op: (re-)register this top-level function first ...
	TopImpl     string          `json:"topImpl"`     // ... as count | wrap | id | first
}

// the top-level functions a reader request can (re-)register under a name of its choosing
var topImpls = map[string]func(any) (any, error){
	"count": func(v any) (any, error) {
		if a, ok := v.([]any); ok {
			return float64(len(a)), nil
		}
		return float64(1), nil
	},
	"wrap": func(v any) (any, error) { return []any{v}, nil },
	"id":   func(v any) (any, error) { return v, nil },
	"first": func(v any) (any, error) {
		if a, ok := v.([]any); ok && len(a) > 0 {
			return a[0], nil
		}
		return nil, nil
	},
}

// ---------- instrumentation state for the registered test functions ----------

var (
	callCount   atomic.Int64 // invocations of vf_* functions in the current op
	failAt      atomic.Int64 // vf_fail fails at this invocation index (1-based); 0 = never
	started     atomic.Int64
	completed   atomic.Int64
	latencies   []int
	callLogMu   sync.Mutex
	callLog     []any // arguments of every vf_tag call, in invocation order
	reportedMu  sync.Mutex
	reportedErr []string
)

func resetInstr(r *req) {
	callCount.Store(0)
	failAt.Store(r.FailAt)
	started.Store(0)
	completed.Store(0)
	latencies = r.Latency
	callLogMu.Lock()
	callLog = nil
	callLogMu.Unlock()
	reportedMu.Lock()
	reportedErr = nil
	reportedMu.Unlock()
}

func registerFunctions() {
	// vf_id(x): identity, counted
	genql.RegisterFunction("vf_id", func(q *genql.Query, cur genql.Map, o *genql.FunctionOptions, args []any) (any, error) {
		callCount.Add(1)
		if len(args) != 1 {
			return nil, fmt.Errorf("vf_id arity")
		}
		return args[0], nil
	})
	// vf_fail(x): identity that fails at the failAt-th invocation (counted over all vf_fail calls)
	genql.RegisterFunction("vf_fail", func(q *genql.Query, cur genql.Map, o *genql.FunctionOptions, args []any) (any, error) {
		n := callCount.Add(1)
		if len(args) == 1 {
			callLogMu.Lock()
			callLog = append(callLog, []any{"fail", args[0]})
			callLogMu.Unlock()
		}
		if f := failAt.Load(); f != 0 && n == f {
			return nil, fmt.Errorf("injected fault at call %d", n)
		}
		if len(args) != 1 {
			return nil, fmt.Errorf("vf_fail arity")
		}
		return args[0], nil
	})
	// vf_slow(tag, x): sleeps its configured latency, logs (tag, x) on completion, returns x
	genql.RegisterFunction("vf_slow", func(q *genql.Query, cur genql.Map, o *genql.FunctionOptions, args []any) (any, error) {
		n := callCount.Add(1)
		started.Add(1)
		if len(latencies) > 0 {
			d := latencies[int(n-1)%len(latencies)]
			if d > 0 {
				time.Sleep(time.Duration(d) * time.Microsecond)
			}
		}
		if len(args) != 2 {
			return nil, fmt.Errorf("vf_slow arity")
		}
		callLogMu.Lock()
		callLog = append(callLog, []any{args[0], args[1]})
		callLogMu.Unlock()
		completed.Add(1)
		return args[1], nil
	})
	// vf_panic(x): panics when x is true, returns x otherwise
	genql.RegisterFunction("vf_panic", func(q *genql.Query, cur genql.Map, o *genql.FunctionOptions, args []any) (any, error) {
		callCount.Add(1)
		if len(args) == 1 {
			if b, ok := args[0].(bool); ok && b {
				panic("vf_panic: injected panic")
			}
			return args[0], nil
		}
		panic("vf_panic: injected panic")
	})
	// vf_err(x): returns an error when x is true
	genql.RegisterFunction("vf_err", func(q *genql.Query, cur genql.Map, o *genql.FunctionOptions, args []any) (any, error) {
		callCount.Add(1)
		if len(args) == 1 {
			if b, ok := args[0].(bool); ok && !b {
				return args[0], nil
			}
		}
		return nil, fmt.Errorf("vf_err: injected error")
	})
	// functions that come in through the "external" registration API (no query / row / options arguments)
	genql.Import(map[string]func([]any) (any, error){
		"vf_ext": func(args []any) (any, error) {
			if len(args) == 0 {
				return nil, nil
			}
			return args[0], nil
		},
	})
	genql.RegisterExternalFunction("VF_Ext_Fail", func(args []any) (any, error) { return nil, fmt.Errorf("external function fails") })
	genql.RegisterImmediateFunction("VF_Imm_Mixed", func(q *genql.Query, cur genql.Map, o *genql.FunctionOptions, args []any) (any, error) {
		callCount.Add(1)
		if len(args) != 1 {
			return nil, fmt.Errorf("vf_imm_mixed arity")
		}
		return args[0], nil
	})
	genql.RegisterImmediateFunction("vf_imm", func(q *genql.Query, cur genql.Map, o *genql.FunctionOptions, args []any) (any, error) {
		callCount.Add(1)
		if len(args) != 1 {
			return nil, fmt.Errorf("vf_imm arity")
		}
		return args[0], nil
	})
}

// ---------- canonical encoding of results ----------

type encState struct {
	nonPlain []string // Go types found that are not nil/bool/float64/string/[]any/map[string]any
	depth    int
}

func encFloat(sb *strings.Builder, f float64) {
	if math.IsNaN(f) || math.IsInf(f, 0) {
		sb.WriteString(`{"#":"` + strconv.FormatUint(math.Float64bits(f), 10) + `"}`)
		return
	}
	if f == math.Trunc(f) && math.Abs(f) < 9007199254740992 && !(f == 0 && math.Signbit(f)) {
		sb.WriteString(strconv.FormatInt(int64(f), 10))
		return
	}
	sb.WriteString(`{"#":"` + strconv.FormatUint(math.Float64bits(f), 10) + `"}`)
}

func encStr(sb *strings.Builder, s string) {
	b, _ := json.Marshal(s)
	sb.Write(b)
}

func (st *encState) enc(sb *strings.Builder, v any) {
	st.depth++
	defer func() { st.depth-- }()
	if st.depth > 200 {
		st.nonPlain = append(st.nonPlain, "cycle-or-too-deep")
		sb.WriteString(`"#deep"`)
		return
	}
	switch t := v.(type) {
	case nil:
		sb.WriteString("null")
	case bool:
		if t {
			sb.WriteString("true")
		} else {
			sb.WriteString("false")
		}
	case float64:
		encFloat(sb, t)
	case string:
		encStr(sb, t)
	case []any:
		sb.WriteByte('[')
		for i, x := range t {
			if i > 0 {
				sb.WriteByte(',')
			}
			st.enc(sb, x)
		}
		sb.WriteByte(']')
	case map[string]any:
		keys := make([]string, 0, len(t))
		for k := range t {
			keys = append(keys, k)
		}
		sort.Strings(keys)
		sb.WriteByte('{')
		for i, k := range keys {
			if i > 0 {
				sb.WriteByte(',')
			}
			encStr(sb, k)
			sb.WriteByte(':')
			st.enc(sb, t[k])
		}
		sb.WriteByte('}')
	default:
		rv := reflect.ValueOf(v)
		switch rv.Kind() {
		case reflect.Int, reflect.Int8, reflect.Int16, reflect.Int32, reflect.Int64:
			// a Go integer is a JSON-representable number; noted, not flagged
			encFloat(sb, float64(rv.Int()))
		case reflect.Uint, reflect.Uint8, reflect.Uint16, reflect.Uint32, reflect.Uint64:
			encFloat(sb, float64(rv.Uint()))
		case reflect.Float32:
			encFloat(sb, rv.Float())
		default:
			st.nonPlain = append(st.nonPlain, fmt.Sprintf("%T", v))
			switch rv.Kind() {
			case reflect.Slice, reflect.Array:
				sb.WriteByte('[')
				for i := 0; i < rv.Len(); i++ {
					if i > 0 {
						sb.WriteByte(',')
					}
					st.enc(sb, rv.Index(i).Interface())
				}
				sb.WriteByte(']')
			case reflect.Ptr:
				if rv.IsNil() {
					sb.WriteString("null")
				} else {
					st.enc(sb, rv.Elem().Interface())
				}
			case reflect.Map:
				sb.WriteString(`"#map"`)
			case reflect.String:
				encStr(sb, rv.String())
			case reflect.Bool:
				if rv.Bool() {
					sb.WriteString("true")
				} else {
					sb.WriteString("false")
				}
			default:
				encStr(sb, fmt.Sprintf("#%T", v))
			}
		}
	}
}

func encode(v any) (string, []string) {
	st := &encState{}
	var sb strings.Builder
	st.enc(&sb, v)
	return sb.String(), st.nonPlain
}

// decode a protocol value: JSON with {"#": "<bits>"} for non-integral doubles
func decodeVal(raw json.RawMessage) (any, error) {
	if len(raw) == 0 {
		return nil, nil
	}
	var v any
	if err := json.Unmarshal(raw, &v); err != nil {
		return nil, err
	}
	return fixNums(v), nil
}

func fixNums(v any) any {
	switch t := v.(type) {
	case []any:
		for i := range t {
			t[i] = fixNums(t[i])
		}
		return t
	case map[string]any:
		if len(t) == 1 {
			if b, ok := t["#"].(string); ok {
				u, err := strconv.ParseUint(b, 10, 64)
				if err == nil {
					return math.Float64frombits(u)
				}
			}
		}
		for k := range t {
			t[k] = fixNums(t[k])
		}
		return t
	}
	return v
}

// typed values for compare.Compare / sanitizer args: {"t":"int8","v":"-1"} etc.
func decodeTyped(raw json.RawMessage) (any, error) {
	var tv struct {
		T string `json:"t"`
		V string `json:"v"`
	}
	if err := json.Unmarshal(raw, &tv); err != nil {
		return nil, err
	}
	pi := func(bits int) (int64, error) { return strconv.ParseInt(tv.V, 10, bits) }
	pu := func(bits int) (uint64, error) { return strconv.ParseUint(tv.V, 10, bits) }
	switch tv.T {
	case "nil":
		return nil, nil
	case "bool":
		return tv.V == "true", nil
	case "string":
		return tv.V, nil
	case "bytes":
		return []byte(tv.V), nil
	case "int":
		x, err := pi(64)
		return int(x), err
	case "int8":
		x, err := pi(8)
		return int8(x), err
	case "int16":
		x, err := pi(16)
		return int16(x), err
	case "int32":
		x, err := pi(32)
		return int32(x), err
	case "int64":
		x, err := pi(64)
		return int64(x), err
	case "uint":
		x, err := pu(64)
		return uint(x), err
	case "uint8":
		x, err := pu(8)
		return uint8(x), err
	case "uint16":
		x, err := pu(16)
		return uint16(x), err
	case "uint32":
		x, err := pu(32)
		return uint32(x), err
	case "uint64":
		x, err := pu(64)
		return uint64(x), err
	case "float32":
		u, err := strconv.ParseUint(tv.V, 10, 32)
		return math.Float32frombits(uint32(u)), err
	case "float64":
		u, err := strconv.ParseUint(tv.V, 10, 64)
		return math.Float64frombits(u), err
	}
	return nil, fmt.Errorf("unknown typed value %q", tv.T)
}

// retype stores every integral float64 that fits as the given Go kind (the engine accepts any Go
// number kind in its input; JSON decoding only ever produces float64)
func retype(v any, kind string) any {
	switch t := v.(type) {
	case []any:
		for i := range t {
			t[i] = retype(t[i], kind)
		}
		return t
	case map[string]any:
		// sorted keys: with kind "mixed" the kind a number gets depends on the order of the walk, and the same request
		// must give the same document in every process
		keys := make([]string, 0, len(t))
		for k := range t {
			keys = append(keys, k)
		}
		sort.Strings(keys)
		for _, k := range keys {
			t[k] = retype(t[k], kind)
		}
		return t
	case float64:
		if t != math.Trunc(t) || math.IsInf(t, 0) || math.Abs(t) > 1<<53 {
			if kind == "float32" && float64(float32(t)) == t {
				return float32(t)
			}
			return t
		}
		in := func(lo, hi float64) bool { return t >= lo && t <= hi }
		switch kind {
		case "int":
			return int(t)
		case "int64":
			return int64(t)
		case "int32":
			if in(math.MinInt32, math.MaxInt32) {
				return int32(t)
			}
		case "int16":
			if in(math.MinInt16, math.MaxInt16) {
				return int16(t)
			}
		case "int8":
			if in(math.MinInt8, math.MaxInt8) {
				return int8(t)
			}
		case "uint":
			if t >= 0 {
				return uint(t)
			}
		case "uint64":
			if t >= 0 {
				return uint64(t)
			}
		case "uint32":
			if in(0, math.MaxUint32) {
				return uint32(t)
			}
		case "uint16":
			if in(0, math.MaxUint16) {
				return uint16(t)
			}
		case "uint8":
			if in(0, math.MaxUint8) {
				return uint8(t)
			}
		case "float32":
			if float64(float32(t)) == t {
				return float32(t)
			}
		case "mixed":
			kinds := []string{"int", "int64", "int32", "int16", "int8", "uint", "uint64", "uint32", "uint16", "uint8", "float32", "float64"}
			mixedCounter++
			return retype(t, kinds[mixedCounter%len(kinds)])
		}
		return t
	}
	return v
}

var mixedCounter int

// deep copy of JSON-like data
func deepCopy(v any) any {
	switch t := v.(type) {
	case []any:
		out := make([]any, len(t))
		for i := range t {
			out[i] = deepCopy(t[i])
		}
		return out
	case map[string]any:
		out := make(map[string]any, len(t))
		for k, x := range t {
			out[k] = deepCopy(x)
		}
		return out
	}
	return v
}

type resp map[string]any

func errClass(err error) string {
	if err == nil {
		return ""
	}
	return "error"
}

func opQuery(r *req) (out resp) {
	out = resp{}
	docAny, err := decodeVal(r.Doc)
	if err != nil {
		out["bad"] = err.Error()
		return
	}
	doc, ok := docAny.(map[string]any)
	if !ok {
		out["bad"] = "doc must be an object"
		return
	}
	if r.NumKind != "" {
		mixedCounter = 0
		doc = retype(doc, r.NumKind).(map[string]any)
	}
	if r.Tables == "maps" {
		// the engine accepts any slice as a table (AsArray copies it through reflection)
		for k, v := range doc {
			if arr, ok := v.([]any); ok && len(arr) > 0 {
				typed := make([]map[string]any, 0, len(arr))
				for _, e := range arr {
					m, ok := e.(map[string]any)
					if !ok {
						typed = nil
						break
					}
					typed = append(typed, m)
				}
				if typed != nil {
					doc[k] = typed
				}
			}
		}
	}
	before, nonPlainBefore := encode(doc)
	opts := []genql.QueryOption{}
	if r.Wrapped {
		opts = append(opts, genql.Wrapped())
	}
	if r.Pg {
		opts = append(opts, genql.PostgresEscapingDialect())
	}
	if r.Arr {
		opts = append(opts, genql.IdomaticArrays())
	}
	if len(r.Consts) > 0 && string(r.Consts) != "null" {
		c, err := decodeVal(r.Consts)
		if err == nil {
			if m, ok := c.(map[string]any); ok {
				opts = append(opts, genql.WithConstants(m))
			}
		}
	}
	var vars map[string]any
	if len(r.Vars) > 0 && string(r.Vars) != "null" {
		c, err := decodeVal(r.Vars)
		if err == nil {
			if m, ok := c.(map[string]any); ok {
				vars = m
				opts = append(opts, genql.WithVars(vars))
			}
		}
	}
	var completedCalls atomic.Int64
	if r.CompletedCb != "" {
		panics := r.CompletedCb == "panic"
		opts = append(opts, genql.CompletedCallback(func() {
			completedCalls.Add(1)
			if panics {
				panic("the completed callback panics")
			}
		}))
	}
	opts = append(opts, genql.UnReportedErrors(func(err error) {
		reportedMu.Lock()
		reportedErr = append(reportedErr, "reported")
		reportedMu.Unlock()
	}))
	resetInstr(r)
	func() {
		defer func() {
			if p := recover(); p != nil {
				out["r"] = "panic"
				out["msg"] = fmt.Sprint(p)
			}
		}()
		q, err := genql.New(doc, r.SQL, opts...)
		if err != nil {
			out["r"] = "error"
			out["stage"] = "new"
			out["msg"] = err.Error()
			return
		}
		rs, err := q.Exec()
		if err != nil {
			out["r"] = "error"
			out["stage"] = "exec"
			out["msg"] = err.Error()
			if rs != nil {
				out["rowsWithError"] = len(rs)
			}
			return
		}
		out["r"] = "ok"
		if rs == nil {
			rs = []any{}
		}
		s, nonPlain := encode(rs)
		out["v"] = json.RawMessage(s)
		if len(nonPlain) > 0 {
			out["nonPlain"] = nonPlain
		}
		if r.ReExec {
			rs2, err := q.Exec()
			if err != nil {
				out["r2"] = "error"
				out["msg2"] = err.Error()
				return
			}
			out["r2"] = "ok"
			if rs2 == nil {
				rs2 = []any{}
			}
			s2, nonPlain2 := encode(rs2)
			out["v2"] = json.RawMessage(s2)
			if len(nonPlain2) > 0 {
				out["nonPlain2"] = nonPlain2
			}
		}
	}()
	if r.CompletedCb != "" {
		out["completedCalls"] = completedCalls.Load()
	}
	out["calls"] = callCount.Load()
	out["started"] = started.Load()
	out["completed"] = completed.Load()
	callLogMu.Lock()
	if len(callLog) > 0 {
		s, _ := encode(callLog)
		out["callLog"] = json.RawMessage(s)
	}
	callLogMu.Unlock()
	reportedMu.Lock()
	out["reported"] = len(reportedErr)
	reportedMu.Unlock()
	after, nonPlainDoc := encode(doc)
	// non-plain values (a thunk, a cycle, a pointer) that were not in the document before the call count as a change
	if before != after || strings.Join(nonPlainDoc, ",") != strings.Join(nonPlainBefore, ",") {
		out["docChanged"] = true
		out["docAfter"] = json.RawMessage(after)
	}
	if vars != nil {
		s, _ := encode(vars)
		out["vars"] = json.RawMessage(s)
	}
	return
}

// opSeq runs several queries one after the other on ONE shared document object (the first may be
// made to fail); used for "the library stays usable after a failure"
func opSeq(r *req) (out resp) {
	out = resp{}
	var qs []struct {
		SQL    string `json:"sql"`
		FailAt int64  `json:"failAt"`
	}
	if err := json.Unmarshal(r.Args, &qs); err != nil {
		out["bad"] = err.Error()
		return
	}
	docAny, err := decodeVal(r.Doc)
	if err != nil {
		out["bad"] = err.Error()
		return
	}
	doc, ok := docAny.(map[string]any)
	if !ok {
		out["bad"] = "doc must be an object"
		return
	}
	before, _ := encode(doc)
	var results []any
	for _, q := range qs {
		sub := &req{SQL: q.SQL, FailAt: q.FailAt}
		resetInstr(sub)
		one := resp{}
		func() {
			defer func() {
				if p := recover(); p != nil {
					one["r"] = "panic"
					one["msg"] = fmt.Sprint(p)
				}
			}()
			qq, err := genql.New(doc, q.SQL)
			if err != nil {
				one["r"] = "error"
				return
			}
			rs, err := qq.Exec()
			if err != nil {
				one["r"] = "error"
				if rs != nil {
					one["rowsWithError"] = len(rs)
				}
				return
			}
			if rs == nil {
				rs = []any{}
			}
			s, _ := encode(rs)
			one["r"] = "ok"
			one["v"] = json.RawMessage(s)
		}()
		one["calls"] = callCount.Load()
		results = append(results, one)
	}
	after, _ := encode(doc)
	out["r"] = "ok"
	out["results"] = results
	if before != after {
		out["docChanged"] = true
	}
	return
}

func opReader(r *req) (out resp) {
	out = resp{}
	doc, err := decodeVal(r.Doc)
	if err != nil {
		out["bad"] = err.Error()
		return
	}
	before, _ := encode(doc)
	if f, ok := topImpls[r.TopImpl]; ok && r.TopName != "" {
		genql.RegisterTopLevelFunction(r.TopName, f)
	}
	func() {
		defer func() {
			if p := recover(); p != nil {
				out["r"] = "panic"
				out["msg"] = fmt.Sprint(p)
			}
		}()
		rs, err := genql.ExecReader(doc, r.Selector)
		if err != nil {
			out["r"] = "error"
			out["msg"] = err.Error()
			return
		}
		out["r"] = "ok"
		s, nonPlain := encode(rs)
		out["v"] = json.RawMessage(s)
		if len(nonPlain) > 0 {
			out["nonPlain"] = nonPlain
		}
	}()
	after, _ := encode(doc)
	if before != after {
		out["docChanged"] = true
	}
	return
}

func guard(out resp, f func()) {
	defer func() {
		if p := recover(); p != nil {
			out["r"] = "panic"
			out["msg"] = fmt.Sprint(p)
		}
	}()
	f()
}

func handle(r *req) resp {
	switch r.Op {
	case "query":
		return opQuery(r)
	case "reader":
		return opReader(r)
	case "compare":
		out := resp{}
		a, err := decodeTyped(r.A)
		if err != nil {
			out["bad"] = err.Error()
			return out
		}
		b, err := decodeTyped(r.B)
		if err != nil {
			out["bad"] = err.Error()
			return out
		}
		guard(out, func() {
			out["v"] = compare.Compare(a, b)
			out["r"] = "ok"
		})
		return out
	case "regex":
		out := resp{}
		guard(out, func() {
			b, err := genql.RegexComparison(r.Text, r.Pattern)
			if err != nil {
				out["r"] = "error"
				out["msg"] = err.Error()
				return
			}
			out["r"] = "ok"
			out["v"] = b
		})
		return out
	case "dq2bt":
		out := resp{}
		guard(out, func() {
			s, err := genql.DoubleQuotesToBackTick(r.Text)
			if err != nil {
				out["r"] = "error"
				return
			}
			out["r"] = "ok"
			out["v"] = s
		})
		return out
	case "fixarr":
		out := resp{}
		guard(out, func() {
			s, err := genql.FixIdiomaticArray(r.Text)
			if err != nil {
				out["r"] = "error"
				return
			}
			out["r"] = "ok"
			out["v"] = s
		})
		return out
	case "sanitize":
		out := resp{}
		var raws []json.RawMessage
		if err := json.Unmarshal(r.Args, &raws); err != nil {
			out["bad"] = err.Error()
			return out
		}
		args := make([]any, len(raws))
		for i, raw := range raws {
			a, err := decodeTyped(raw)
			if err != nil {
				out["bad"] = err.Error()
				return out
			}
			args[i] = a
		}
		guard(out, func() {
			s, err := sanitize.SanitizeSQL(r.Text, args...)
			if err != nil {
				out["r"] = "error"
				out["msg"] = err.Error()
				return
			}
			out["r"] = "ok"
			out["v"] = s
		})
		return out
	case "parse":
		out := resp{}
		guard(out, func() {
			st, err := genql.Parse(r.Text)
			if err != nil {
				out["r"] = "error"
				out["msg"] = err.Error()
				return
			}
			out["r"] = "ok"
			out["v"] = canonicalSQL(st)
		})
		return out
	case "jointype":
		out := resp{}
		guard(out, func() {
			m, err := joinTypePredicates(r.Text)
			if err != nil {
				out["r"] = "error"
				out["msg"] = err.Error()
				return
			}
			out["r"] = "ok"
			for k, v := range m {
				out[k] = v
			}
		})
		return out
	case "seq":
		return opSeq(r)
	case "conc":
		return opConc(r.Args)
	case "alone":
		return opAlone(r.Args)
	case "ping":
		return resp{"r": "ok"}
	}
	return resp{"bad": "unknown op " + r.Op}
}

func main() {
	registerFunctions()
	in := bufio.NewReaderSize(os.Stdin, 1<<20)
	out := bufio.NewWriterSize(os.Stdout, 1<<20)
	defer out.Flush()
	flushEach := os.Getenv("RUNNER_FLUSH") != ""
	for {
		line, err := in.ReadBytes('\n')
		if len(line) > 0 {
			var r req
			var o resp
			if e := json.Unmarshal(line, &r); e != nil {
				o = resp{"bad": "json: " + e.Error()}
			} else {
				o = handle(&r)
				o["id"] = r.ID
			}
			b, e := json.Marshal(o)
			if e != nil {
				b, _ = json.Marshal(resp{"id": r.ID, "bad": "marshal: " + e.Error()})
			}
			out.Write(b)
			out.WriteByte('\n')
			if flushEach {
				out.Flush()
			}
		}
		if err != nil {
			break
		}
	}
}
