-- spike C05: the sort.go comparator is a strict weak order on one-kind keys
-- keys: list of (Option α) (none = NULL); dirs: list of Bool (true = ASC)
variable {α : Type}

structure Ord3 (α : Type) where
  cmp : α → α → Int                -- -1, 0, 1
  range : ∀ a b, cmp a b = -1 ∨ cmp a b = 0 ∨ cmp a b = 1
  refl : ∀ a, cmp a a = 0
  antisymm : ∀ a b, cmp a b = - cmp b a
  trans_lt : ∀ a b c, cmp a b = -1 → cmp b c = -1 → cmp a c = -1
  eq_left : ∀ a b c, cmp a b = 0 → cmp a c = cmp b c

/-- mirror of sort.go Compare(slice,i,j,orderBy): first==nil → false; second==nil → true; tie → next key -/
def less (o : Ord3 α) : List Bool → List (Option α) → List (Option α) → Bool
  | asc :: ds, x :: xs, y :: ys =>
    match x, y with
    | none, _ => false
    | some _, none => true
    | some a, some b =>
      let r := o.cmp a b
      if r = 0 then less o ds xs ys
      else r = (if asc then -1 else 1)
  | _, _, _ => false

theorem less_irrefl (o : Ord3 α) : ∀ ds xs, less o ds xs xs = false
  | [], _ => by simp [less]
  | _ :: _, [] => by simp [less]
  | asc :: ds, x :: xs => by
    cases x with
    | none => simp [less]
    | some a => simp [less, o.refl, less_irrefl o ds xs]

theorem less_trans (o : Ord3 α) : ∀ ds xs ys zs, less o ds xs ys = true → less o ds ys zs = true → less o ds xs zs = true
  | [], _, _, _ => by simp [less]
  | _ :: _, [], _, _ => by simp [less]
  | _ :: _, _ :: _, [], _ => by simp [less]
  | _ :: _, _ :: _, _ :: _, [] => by simp [less]
  | asc :: ds, x :: xs, y :: ys, z :: zs => by
    intro h1 h2
    cases x with
    | none => simp [less] at h1
    | some a =>
      cases y with
      | none => simp [less] at h2
      | some b =>
        cases z with
        | none => simp [less]
        | some c =>
          simp only [less] at h1 h2 ⊢
          by_cases hab : o.cmp a b = 0
          · by_cases hbc : o.cmp b c = 0
            · have hac : o.cmp a c = 0 := by rw [o.eq_left a b c hab]; exact hbc
              simp only [hab, hbc, hac, ↓reduceIte] at h1 h2 ⊢
              exact less_trans o ds xs ys zs h1 h2
            · have hac : o.cmp a c = o.cmp b c := o.eq_left a b c hab
              simp only [hab, hbc, hac, ↓reduceIte] at h1 h2 ⊢
              exact h2
          · by_cases hbc : o.cmp b c = 0
            · -- cmp a c = cmp a b  (b ~ c)
              have h : o.cmp a c = o.cmp a b := by
                have e1 := o.eq_left b c a hbc      -- cmp b a = cmp c a
                have e2 := o.antisymm a c
                have e3 := o.antisymm a b
                omega
              simp only [hab, hbc, h, ↓reduceIte] at h1 h2 ⊢
              exact h1
            · simp only [hab, hbc, ↓reduceIte] at h1 h2
              have h1' := of_decide_eq_true h1
              have h2' := of_decide_eq_true h2
              cases asc with
              | true =>
                simp at h1' h2'
                have := o.trans_lt a b c h1' h2'
                simp [this]
              | false =>
                simp at h1' h2'
                have e1 := o.antisymm a b
                have e2 := o.antisymm b c
                have e3 := o.antisymm a c
                have := o.trans_lt c b a (by omega) (by omega)
                have hac : o.cmp a c = 1 := by omega
                simp [hac]

#print axioms less_trans
