-- spike: QuoteString (fixed: doubles ' and \) vs MySQL-style string scanner
def quoteBody : List Char → List Char
  | [] => []
  | c :: cs =>
    if c = '\'' then '\'' :: '\'' :: quoteBody cs
    else if c = '\\' then '\\' :: '\\' :: quoteBody cs
    else c :: quoteBody cs

def quote (s : List Char) : List Char := '\'' :: (quoteBody s ++ ['\''])

-- decode map for backslash escapes (subset; identity on ' and \)
def decodeEsc (c : Char) : Char :=
  if c = 'n' then '\n' else if c = 't' then '\t' else if c = '0' then (Char.ofNat 0) else c

-- scanner after the opening quote: returns (token, rest) or none on lex error
def scanStr : List Char → Option (List Char × List Char)
  | [] => none
  | c :: cs =>
    if c = '\'' then
      match cs with
      | '\'' :: cs' => (scanStr cs').map (fun (t, r) => ('\'' :: t, r))
      | _ => some ([], cs)
    else if c = '\\' then
      match cs with
      | [] => none
      | d :: cs' => (scanStr cs').map (fun (t, r) => (decodeEsc d :: t, r))
    else (scanStr cs).map (fun (t, r) => (c :: t, r))
termination_by l => l.length
decreasing_by all_goals simp_all <;> omega

theorem scan_quoteBody (s rest : List Char) (h : rest.head? ≠ some '\'') :
    scanStr (quoteBody s ++ '\'' :: rest) = some (s, rest) := by
  induction s with
  | nil =>
    simp only [quoteBody, List.nil_append]
    rw [scanStr.eq_def]
    simp only [↓reduceIte]
    cases rest with
    | nil => rfl
    | cons r rs =>
      have : r ≠ '\'' := by simpa using h
      split
      · next heq => simp at heq; exact absurd heq.1 this
      · rfl
  | cons c cs ih =>
    by_cases h1 : c = '\''
    · subst h1
      simp only [quoteBody, ↓reduceIte, List.cons_append]
      rw [scanStr.eq_def]; simp [ih]
    · by_cases h2 : c = '\\'
      · subst h2
        simp only [quoteBody, List.cons_append]
        rw [scanStr.eq_def]; simp [ih, decodeEsc]
      · simp only [quoteBody, h1, h2, ↓reduceIte, List.cons_append]
        rw [scanStr.eq_def]; simp [h1, h2, ih]

#print axioms scan_quoteBody
