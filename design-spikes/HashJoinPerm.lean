import Mathlib.Data.List.Perm.Basic
import Mathlib.Data.Multiset.Bind

-- spike: catalogue (first-appearance grouping) and hash join ~ textbook
variable {α β K : Type} [DecidableEq K]

/-- insert a row into an ordered catalogue of (key, rows) groups (mirror of ToCatalog loop body) -/
def catInsert (k : K) (a : α) : List (K × List α) → List (K × List α)
  | [] => [(k, [a])]
  | (k', as) :: rest => if k' = k then (k', as ++ [a]) :: rest else (k', as) :: catInsert k a rest

def catalog (key : α → K) (rows : List α) : List (K × List α) :=
  rows.foldl (fun c a => catInsert (key a) a c) []

def catLookup (k : K) : List (K × List α) → List α
  | [] => []
  | (k', as) :: rest => if k' = k then as else catLookup k rest

def hashJoin (kl : α → K) (kr : β → K) (l : List α) (r : List β) : List (α × β) :=
  (catalog kl l).flatMap fun g => g.2.flatMap fun a => (catLookup g.1 (catalog kr r)).map fun b => (a, b)

def textbook (kl : α → K) (kr : β → K) (l : List α) (r : List β) : List (α × β) :=
  l.flatMap fun a => (r.filter fun b => kr b = kl a).map fun b => (a, b)

-- Lemma 1: flattening the catalogue is a permutation of the rows
theorem catInsert_flat (k : K) (a : α) (c : List (K × List α)) :
    ((catInsert k a c).flatMap (·.2)).Perm (c.flatMap (·.2) ++ [a]) := by
  induction c with
  | nil => simp [catInsert]
  | cons g rest ih =>
    obtain ⟨k', as⟩ := g
    unfold catInsert
    split
    · simp only [List.flatMap_cons, List.append_assoc]
      exact (List.perm_append_left_iff as).mpr (List.perm_append_comm)
    · simp only [List.flatMap_cons, List.append_assoc]
      exact (List.perm_append_left_iff as).mpr ih

theorem catalog_flat_aux (key : α → K) (rows : List α) (c : List (K × List α)) :
    ((rows.foldl (fun c a => catInsert (key a) a c) c).flatMap (·.2)).Perm (c.flatMap (·.2) ++ rows) := by
  induction rows generalizing c with
  | nil => simp
  | cons a rows ih =>
    simp only [List.foldl_cons]
    refine (ih _).trans ?_
    refine ((catInsert_flat (key a) a c).append_right rows).trans ?_
    simp

theorem catalog_flat (key : α → K) (rows : List α) :
    ((catalog key rows).flatMap (·.2)).Perm rows := by
  simpa [catalog] using catalog_flat_aux key rows []

#print axioms catalog_flat
#check @List.Perm.flatMap_right
#check @List.Perm.flatMap_left
#check @List.flatMap_assoc

-- invariant (a): members of group k have key k
def CatOK (key : α → K) (c : List (K × List α)) : Prop := ∀ g ∈ c, ∀ a ∈ g.2, key a = g.1

theorem catInsert_ok (key : α → K) (a : α) (c : List (K × List α)) (h : CatOK key c) :
    CatOK key (catInsert (key a) a c) := by
  induction c with
  | nil => intro g hg b hb; simp [catInsert] at hg; subst hg; simp at hb; subst hb; rfl
  | cons g rest ih =>
    obtain ⟨k', as⟩ := g
    have hrest : CatOK key rest := fun g hg => h g (List.mem_cons_of_mem _ hg)
    unfold catInsert
    split
    · next hk =>
      intro g hg b hb
      rcases List.mem_cons.mp hg with rfl | hg
      · simp at hb
        rcases hb with hb | rfl
        · exact h (k', as) (List.mem_cons_self) b hb
        · exact hk.symm
      · exact hrest g hg b hb
    · intro g hg b hb
      rcases List.mem_cons.mp hg with rfl | hg
      · exact h (k', as) (List.mem_cons_self) b hb
      · exact ih hrest g hg b hb

theorem catalog_ok_aux (key : α → K) (rows : List α) (c : List (K × List α)) (h : CatOK key c) :
    CatOK key (rows.foldl (fun c a => catInsert (key a) a c) c) := by
  induction rows generalizing c with
  | nil => simpa
  | cons a rows ih => exact ih _ (catInsert_ok key a c h)

theorem catalog_ok (key : α → K) (rows : List α) : CatOK key (catalog key rows) :=
  catalog_ok_aux key rows [] (by intro g hg; simp at hg)

-- invariant (b): lookup = filter, in source order
theorem catLookup_insert (k k0 : K) (a : α) (c : List (K × List α)) :
    catLookup k (catInsert k0 a c) = catLookup k c ++ (if k0 = k then [a] else []) := by
  induction c with
  | nil => by_cases h : k0 = k <;> simp [catInsert, catLookup, h]
  | cons g rest ih =>
    obtain ⟨k', as⟩ := g
    unfold catInsert
    by_cases h1 : k' = k0
    · by_cases h2 : k' = k
      · have : k0 = k := h1 ▸ h2
        simp [catLookup, h1, this]
      · have : ¬ k0 = k := fun e => h2 (h1.trans e)
        simp [catLookup, h1, this]
    · by_cases h2 : k' = k
      · subst h2
        have h3 : ¬ k0 = k' := fun e => h1 e.symm
        simp [catLookup, h1, h3]
      · simp [catLookup, h1, h2, ih]

theorem catLookup_catalog_aux (key : α → K) (k : K) (rows : List α) (c : List (K × List α)) :
    catLookup k (rows.foldl (fun c a => catInsert (key a) a c) c)
      = catLookup k c ++ rows.filter (fun a => key a = k) := by
  induction rows generalizing c with
  | nil => simp
  | cons a rows ih =>
    simp only [List.foldl_cons, ih, catLookup_insert, List.filter_cons]
    by_cases h : key a = k <;> simp [h]

theorem catLookup_catalog (key : α → K) (k : K) (rows : List α) :
    catLookup k (catalog key rows) = rows.filter (fun a => key a = k) := by
  simpa [catalog, catLookup] using catLookup_catalog_aux key k rows []

theorem hashJoin_perm_textbook (kl : α → K) (kr : β → K) (l : List α) (r : List β) :
    (hashJoin kl kr l r).Perm (textbook kl kr l r) := by
  unfold hashJoin textbook
  have h1 : ((catalog kl l).flatMap fun g => g.2.flatMap fun a =>
              (catLookup g.1 (catalog kr r)).map fun b => (a, b))
          = (catalog kl l).flatMap fun g => g.2.flatMap fun a =>
              (r.filter fun b => kr b = kl a).map fun b => (a, b) := by
    apply List.flatMap_congr
    intro g hg
    apply List.flatMap_congr
    intro a ha
    rw [catLookup_catalog, catalog_ok kl l g hg a ha]
  rw [h1, ← List.flatMap_assoc]
  exact List.Perm.flatMap_right _ (catalog_flat kl l)

#print axioms hashJoin_perm_textbook
