-- spike: Val, selector-like evaluator with explicit panic outcomes, structural recursion, decide witnesses
inductive Val (N : Type) where
  | null | bool (b : Bool) | num (n : N) | str (s : String)
  | arr (xs : List (Val N)) | obj (kvs : List (String × Val N))

inductive Err | error | panic
deriving DecidableEq, Repr

inductive Dim | idx (i : Nat) | each | range (b e : Option Nat)

variable {N : Type}

structure Defects where
  selUnchecked : Bool := false

def oob (d : Defects) : Err := if d.selUnchecked then .panic else .error

def mapE {α β} (f : α → Except Err β) : List α → Except Err (List β)
  | [] => .ok []
  | x :: xs => match f x with
    | .error e => .error e
    | .ok y => match mapE f xs with
      | .error e => .error e
      | .ok ys => .ok (y :: ys)

def selDim (d : Defects) : List Dim → Val N → Except Err (Val N)
  | [], v => .ok v
  | .idx i :: ds, .arr xs =>
      match xs[i]? with
      | some x => selDim d ds x
      | none => .error (oob d)
  | .each :: ds, .arr xs =>
      match mapE (selDim d ds) xs with
      | .ok ys => .ok (.arr ys)
      | .error e => .error e
  | .range b e :: ds, .arr xs =>
      let b' := b.getD 0
      let e' := e.getD xs.length
      if b' ≤ e' ∧ e' ≤ xs.length then selDim d ds (.arr ((xs.drop b').take (e' - b')))
      else .error (oob d)
  | _ :: _, _ => .error (oob d)

def isPanic {α} : Except Err α → Bool
  | .error .panic => true
  | _ => false

example : isPanic (selDim {selUnchecked := true} [.idx 5] (.arr [.num (1:Int)])) = true := by decide
example : isPanic (selDim {} [.each, .idx 5] (.arr [.arr [.num (1:Int)]])) = false := by decide

theorem isPanic_error_cast {α β} (e : Err) (h : isPanic (Except.error e : Except Err α) = false) :
    isPanic (Except.error e : Except Err β) = false := by
  cases e <;> simp_all [isPanic]

theorem mapE_no_panic {α β} (f : α → Except Err β) (h : ∀ x, isPanic (f x) = false) :
    ∀ xs, isPanic (mapE f xs) = false
  | [] => rfl
  | x :: xs => by
    have hx := h x
    have ih := mapE_no_panic f h xs
    unfold mapE
    cases hfx : f x with
    | error e => rw [hfx] at hx; exact isPanic_error_cast e hx
    | ok y =>
      cases hm : mapE f xs with
      | error e => rw [hm] at ih; exact isPanic_error_cast e ih
      | ok ys => rfl

theorem no_panic_fixed (N : Type) : (ds : List Dim) → (v : Val N) → isPanic (selDim {} ds v) = false
  | [], v => rfl
  | d :: ds, v => by
    have ih := no_panic_fixed N ds
    cases d <;> cases v <;> simp only [selDim, oob] <;> try rfl
    · split
      · exact ih _
      · rfl
    · rename_i xs
      have hx := mapE_no_panic (selDim {} ds) ih xs
      cases hm : mapE (selDim {} ds) xs with
      | error e => rw [hm] at hx; exact isPanic_error_cast e hx
      | ok ys => rfl
    · split
      · exact ih _
      · rfl

#print axioms no_panic_fixed
