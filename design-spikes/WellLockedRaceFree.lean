-- spike C13: well-locked programs are race free under every interleaving
inductive Instr | lock | unlock | acc (w : Bool)
deriving DecidableEq, Repr

/-- well-lockedness of the remaining program, given whether the thread is inside its critical section -/
def WL : Bool → List Instr → Bool
  | false, [] => true
  | true, [] => false
  | false, .lock :: p => WL true p
  | true, .unlock :: p => WL false p
  | true, .acc _ :: p => WL true p
  | _, _ => false

structure St where
  holder : Option Nat
  prog : Nat → List Instr      -- remaining program of every thread

def upd (f : Nat → List Instr) (t : Nat) (p : List Instr) : Nat → List Instr :=
  fun u => if u = t then p else f u

/-- one atomic step of thread t -/
inductive Step : St → Nat → St → Prop
  | lock {s t p} : s.prog t = .lock :: p → s.holder = none →
      Step s t ⟨some t, upd s.prog t p⟩
  | unlock {s t p} : s.prog t = .unlock :: p → s.holder = some t →
      Step s t ⟨none, upd s.prog t p⟩
  | acc {s t w p} : s.prog t = .acc w :: p →
      Step s t ⟨s.holder, upd s.prog t p⟩

inductive Reach (init : St) : St → Prop
  | refl : Reach init init
  | step {s s' t} : Reach init s → Step s t s' → Reach init s'

/-- a data race: two different threads whose next instructions are accesses, one of them a write -/
def Race (s : St) : Prop :=
  ∃ t u w1 w2 p q, t ≠ u ∧ s.prog t = .acc w1 :: p ∧ s.prog u = .acc w2 :: q ∧ (w1 = true ∨ w2 = true)

def LockInv (s : St) : Prop := ∀ t, WL (decide (s.holder = some t)) (s.prog t) = true

theorem inv_step {s s' : St} {t : Nat} (h : LockInv s) (st : Step s t s') : LockInv s' := by
  intro u
  cases st with
  | lock hp hh =>
    rename_i p
    by_cases hu : u = t
    · subst hu
      have := h u; rw [hp, hh] at this
      simpa [upd, WL] using this
    · have := h u; rw [hh] at this
      have hne : ¬ (some t = some u) := by intro e; exact hu (Option.some.inj e).symm
      simpa [upd, hu, hne] using this
  | unlock hp hh =>
    rename_i p
    by_cases hu : u = t
    · subst hu
      have := h u; rw [hp, hh] at this
      simpa [upd, WL] using this
    · have := h u; rw [hh] at this
      have hne : ¬ (some t = some u) := by intro e; exact hu (Option.some.inj e).symm
      simpa [upd, hu, hne] using this
  | acc hp =>
    rename_i w p
    by_cases hu : u = t
    · subst hu
      have := h u; rw [hp] at this
      by_cases hh : s.holder = some u
      · simpa [upd, WL, hh] using this
      · simp [hh, WL] at this
    · have := h u
      simpa [upd, hu] using this

theorem inv_reach {init s : St} (h0 : LockInv init) (r : Reach init s) : LockInv s := by
  induction r with
  | refl => exact h0
  | step _ st ih => exact inv_step ih st

theorem inv_no_race {s : St} (h : LockInv s) : ¬ Race s := by
  rintro ⟨t, u, w1, w2, p, q, hne, ht, hu, _⟩
  have h1 := h t; rw [ht] at h1
  have h2 := h u; rw [hu] at h2
  by_cases a : s.holder = some t
  · by_cases b : s.holder = some u
    · exact hne (Option.some.inj (a.symm.trans b))
    · simp [b, WL] at h2
  · simp [a, WL] at h1

/-- every thread runs a well-locked program, nobody holds the lock initially ⇒ no reachable race -/
theorem well_locked_race_free (init : St) (hh : init.holder = none)
    (hp : ∀ t, WL false (init.prog t) = true) : ∀ s, Reach init s → ¬ Race s := by
  intro s r
  refine inv_no_race (inv_reach ?_ r)
  intro t; simpa [hh] using hp t

-- regenerated facts would look like this:
def execReader_fixed_hit  : List Instr := [.lock, .acc false, .acc false, .unlock]
def execReader_fixed_miss : List Instr := [.lock, .acc false, .acc true, .acc false, .unlock]
def execReader_asis_miss  : List Instr := [.lock, .acc false, .acc true, .unlock, .acc false]
example : WL false execReader_fixed_hit = true := by decide
example : WL false execReader_fixed_miss = true := by decide
example : WL false execReader_asis_miss = false := by decide
#print axioms well_locked_race_free
