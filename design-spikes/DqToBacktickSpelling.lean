-- spike C17: DoubleQuotesToBackTick as a one-character-at-a-time state machine (structural recursion);
-- rendering a token list in the double-quote spelling and rewriting gives the backtick spelling.
namespace GenqlSpike

inductive St | raw | sq | sqEsc | bt | dq | dqEsc
deriving DecidableEq

/-- `none` = the "index out of range" error of the Go function (input ends inside an escape) -/
def scan : St → List Char → Option (List Char)
  | .sqEsc, [] => none
  | .dqEsc, [] => none
  | _, [] => some []
  | .raw, c :: cs =>
    if c = '\'' then (scan .sq cs).map (c :: ·)
    else if c = '`' then (scan .bt cs).map (c :: ·)
    else if c = '"' then (scan .dq cs).map ('`' :: ·)
    else (scan .raw cs).map (c :: ·)
  | .sq, c :: cs =>
    if c = '\'' then (scan .raw cs).map (c :: ·)
    else if c = '\\' then (scan .sqEsc cs).map (c :: ·)
    else (scan .sq cs).map (c :: ·)
  | .sqEsc, c :: cs => (scan .sq cs).map (c :: ·)
  | .bt, c :: cs =>
    if c = '`' then (scan .raw cs).map (c :: ·)
    else (scan .bt cs).map (c :: ·)
  | .dq, c :: cs =>
    if c = '"' then (scan .raw cs).map ('`' :: ·)
    else if c = '\\' then scan .dqEsc cs
    else (scan .dq cs).map (c :: ·)
  | .dqEsc, c :: cs =>
    if c = '"' then (scan .dq cs).map ('"' :: ·)
    else if c = '\\' then (scan .dqEsc cs).map ('\\' :: ·)
    else (scan .dq cs).map (fun r => '\\' :: c :: r)

def dq2bt (s : List Char) : Option (List Char) := scan .raw s

inductive SqItem | ch (c : Char) (h1 : c ≠ '\'') (h2 : c ≠ '\\') | esc (d : Char) | dbl

def SqItem.render : SqItem → List Char
  | .ch c _ _ => [c]
  | .esc d => ['\\', d]
  | .dbl => ['\'', '\'']

inductive Tok
  | other (c : Char) (h1 : c ≠ '\'') (h2 : c ≠ '`') (h3 : c ≠ '"')
  | sqlit (body : List SqItem)
  | btid (body : List Char) (h : ∀ c ∈ body, c ≠ '`')
  | ident (body : List Char) (h : ∀ c ∈ body, c ≠ '"' ∧ c ≠ '\\' ∧ c ≠ '`')

def Tok.render (dqStyle : Bool) : Tok → List Char
  | .other c _ _ _ => [c]
  | .sqlit body => '\'' :: (body.flatMap SqItem.render ++ ['\''])
  | .btid body _ => '`' :: (body ++ ['`'])
  | .ident body _ => if dqStyle then '"' :: (body ++ ['"']) else '`' :: (body ++ ['`'])

def render (dqStyle : Bool) (ts : List Tok) : List Char := ts.flatMap (Tok.render dqStyle)

theorem scan_dq_body (body rest : List Char) (h : ∀ c ∈ body, c ≠ '"' ∧ c ≠ '\\' ∧ c ≠ '`') :
    scan .dq (body ++ '"' :: rest) = (scan .raw rest).map (fun r => body ++ '`' :: r) := by
  induction body with
  | nil => simp [scan]
  | cons c cs ih =>
    have hc := h c (List.mem_cons_self)
    have ih' := ih (fun d hd => h d (List.mem_cons_of_mem _ hd))
    simp only [List.cons_append, scan, hc.1, hc.2.1, ↓reduceIte, ih']
    cases scan .raw rest <;> simp

theorem scan_bt_body (body rest : List Char) (h : ∀ c ∈ body, c ≠ '`') :
    scan .bt (body ++ '`' :: rest) = (scan .raw rest).map (fun r => body ++ '`' :: r) := by
  induction body with
  | nil => simp [scan]
  | cons c cs ih =>
    have hc := h c (List.mem_cons_self)
    have ih' := ih (fun d hd => h d (List.mem_cons_of_mem _ hd))
    simp only [List.cons_append, scan, hc, ↓reduceIte, ih']
    cases scan .raw rest <;> simp

/-- a doubled quote closes and reopens; so the body is scanned in state sq, possibly passing through raw -/
theorem scan_sq_body (body : List SqItem) (rest : List Char) :
    scan .sq (body.flatMap SqItem.render ++ '\'' :: rest)
      = (scan .raw rest).map (fun r => body.flatMap SqItem.render ++ '\'' :: r) := by
  induction body with
  | nil => simp [scan]
  | cons it its ih =>
    cases it with
    | ch c h1 h2 =>
      simp only [List.flatMap_cons, SqItem.render, List.cons_append, List.nil_append, scan, h1, h2, ↓reduceIte, ih]
      cases scan .raw rest <;> simp
    | esc d =>
      simp only [List.flatMap_cons, SqItem.render, List.cons_append, List.nil_append, scan, ih]
      simp
      cases scan .raw rest <;> simp
    | dbl =>
      simp only [List.flatMap_cons, SqItem.render, List.cons_append, List.nil_append, scan, ih]
      simp
      cases scan .raw rest <;> simp

theorem dq2bt_spelling_aux (ts : List Tok) (rest : List Char) :
    scan .raw (render true ts ++ rest) = (scan .raw rest).map (fun r => render false ts ++ r) := by
  induction ts with
  | nil => simp [render]
  | cons t ts ih =>
    have ih' : scan .raw (List.flatMap (Tok.render true) ts ++ rest)
        = (scan .raw rest).map (fun r => List.flatMap (Tok.render false) ts ++ r) := ih
    cases t with
    | other c h1 h2 h3 =>
      simp only [render, List.flatMap_cons, Tok.render, List.cons_append, List.nil_append, scan, h1, h2, h3, ↓reduceIte, ih']
      cases scan .raw rest <;> simp
    | sqlit body =>
      simp only [render, List.flatMap_cons, Tok.render, List.cons_append, List.append_assoc, List.nil_append, scan, ↓reduceIte]
      rw [scan_sq_body, ih']
      cases scan .raw rest <;> simp
    | btid body h =>
      simp only [render, List.flatMap_cons, Tok.render, List.cons_append, List.append_assoc, List.nil_append, scan]
      simp
      rw [scan_bt_body _ _ h, ih']
      cases scan .raw rest <;> simp
    | ident body h =>
      have e : scan .raw ('"' :: (body ++ '"' :: (List.flatMap (Tok.render true) ts ++ rest)))
          = (scan .dq (body ++ '"' :: (List.flatMap (Tok.render true) ts ++ rest))).map ('`' :: ·) := by
        simp [scan]
      simp only [render, List.flatMap_cons, Tok.render, List.cons_append, List.append_assoc, ↓reduceIte,
        List.nil_append, Bool.false_eq_true]
      rw [e, scan_dq_body _ _ h, ih']
      cases scan .raw rest <;> simp

theorem dq2bt_spelling (ts : List Tok) : dq2bt (render true ts) = some (render false ts) := by
  have := dq2bt_spelling_aux ts []
  simpa [dq2bt, scan] using this

end GenqlSpike
#print axioms GenqlSpike.dq2bt_spelling
