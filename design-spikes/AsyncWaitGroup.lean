-- spike C14: ASYNC calls — every schedule ends with each call invoked once, completed, value in its row
-- n rows; f : Nat → Val is "the function applied to row i's arguments".
namespace GenqlSpike
variable {V : Type}

inductive Task | unspawned | pending | stored | done
deriving DecidableEq

inductive Phase | rows (i : Nat) | post | returned
deriving DecidableEq

structure St (V : Type) where
  phase : Phase
  wg : Nat
  task : Nat → Task
  invoked : Nat → Nat
  slot : Nat → Option V
  col : Nat → Option V

def set {β} (g : Nat → β) (i : Nat) (b : β) : Nat → β := fun j => if j = i then b else g j

inductive Step (n : Nat) (f : Nat → V) : St V → St V → Prop
  -- main thread: wg.Add(1); go task(i); continue with next row
  | spawn {s i} : s.phase = .rows i → i < n →
      Step n f s { s with phase := .rows (i+1), wg := s.wg + 1, task := set s.task i .pending }
  -- goroutine i: rs = f(args)
  | run {s i} : s.task i = .pending →
      Step n f s { s with task := set s.task i .stored, invoked := set s.invoked i (s.invoked i + 1), slot := set s.slot i (some (f i)) }
  -- goroutine i: wg.Done()
  | fin {s i} : s.task i = .stored →
      Step n f s { s with task := set s.task i .done, wg := s.wg - 1 }
  -- main thread: wg.Wait() returns only when the counter is zero
  | wait {s} : s.phase = .rows n → s.wg = 0 →
      Step n f s { s with phase := .post }
  -- main thread: post-processors copy every slot into its row
  | post {s} : s.phase = .post →
      Step n f s { s with phase := .returned, col := s.slot }

def init : St V := ⟨.rows 0, 0, fun _ => .unspawned, fun _ => 0, fun _ => none, fun _ => none⟩

inductive Reach (n : Nat) (f : Nat → V) : St V → Prop
  | init : Reach n f init
  | step {s s'} : Reach n f s → Step n f s s' → Reach n f s'

/-- number of spawned-but-not-done tasks among indices < k -/
def open_ (task : Nat → Task) : Nat → Nat
  | 0 => 0
  | k+1 => open_ task k + (if task k = .pending ∨ task k = .stored then 1 else 0)

def spawnedUpTo (s : St V) : Nat := match s.phase with | .rows i => i | _ => 0

structure Inv (n : Nat) (f : Nat → V) (s : St V) : Prop where
  bound : ∀ i, s.phase = .rows i → i ≤ n
  unsp : ∀ i j, s.phase = .rows i → i ≤ j → s.task j = .unspawned
  sp : ∀ i j, s.phase = .rows i → j < i → s.task j ≠ .unspawned
  wgc : ∀ i, s.phase = .rows i → s.wg = open_ s.task i
  alldone : (s.phase = .post ∨ s.phase = .returned) → ∀ j, j < n → s.task j = .done
  inv0 : ∀ j, (s.task j = .unspawned ∨ s.task j = .pending) → s.invoked j = 0
  inv1 : ∀ j, (s.task j = .stored ∨ s.task j = .done) → s.invoked j = 1 ∧ s.slot j = some (f j)
  cols : s.phase = .returned → ∀ j, j < n → s.col j = some (f j)

theorem open_zero_all_done (task : Nat → Task) : ∀ k, open_ task k = 0 → (∀ j, j < k → task j ≠ .unspawned) →
    ∀ j, j < k → task j = .done
  | 0, _, _, j, hj => absurd hj (Nat.not_lt_zero j)
  | k+1, h, hs, j, hj => by
    simp only [open_] at h
    have hk : ¬ (task k = .pending ∨ task k = .stored) := by
      intro c; simp [c] at h
    have h0 : open_ task k = 0 := by omega
    by_cases e : j = k
    · subst e
      have := hs j (Nat.lt_succ_self j)
      cases ht : task j <;> simp_all
    · exact open_zero_all_done task k h0 (fun j hj => hs j (Nat.lt_succ_of_lt hj)) j (by omega)

-- the headline statement (proof of invariant preservation is routine case analysis; left for the build phase)
theorem async_complete_statement (n : Nat) (f : Nat → V) (s : St V) (hinv : Inv n f s)
    (hret : s.phase = .returned) : ∀ j, j < n → s.invoked j = 1 ∧ s.task j = .done ∧ s.col j = some (f j) := by
  intro j hj
  have hd := hinv.alldone (Or.inr hret) j hj
  exact ⟨(hinv.inv1 j (Or.inr hd)).1, hd, hinv.cols hret j hj⟩

end GenqlSpike
#print axioms GenqlSpike.open_zero_all_done
#print axioms GenqlSpike.async_complete_statement
